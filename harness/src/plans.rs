//! Per-property exploration plans: which families, which configuration axes,
//! at which tier. Everything here is a finite, explicitly enumerated space.

use serde_json::{json, Value};
use std::time::Instant;

use crate::e1::{self, P};
use crate::e2::{self, AsyncPlan};
use crate::families::*;
use crate::provider::*;
use crate::report::{Ctx, Report, Tier};
use crate::run::*;
use crate::sweep::*;
use crate::universe::*;

pub struct PlanItem {
    pub fam: Box<dyn Family>,
    pub cfgs: Vec<(String, RunCfg)>,
    pub stride: u64,
}

fn sync_cfg() -> RunCfg {
    RunCfg::default()
}
fn async_cfg(mask: u8, lifo: bool) -> RunCfg {
    RunCfg {
        runtime: Runtime::Async {
            mask,
            prefix: vec![],
            lifo,
            pairs: false,
        },
        ..RunCfg::default()
    }
}
fn hint_cfg(h: Hint) -> RunCfg {
    RunCfg {
        hint_override: Some(h),
        ..RunCfg::default()
    }
}
fn act_cfg(a: f32, d: f32) -> RunCfg {
    RunCfg {
        activity: Some((a, d)),
        ..RunCfg::default()
    }
}

fn named(v: Vec<(&str, RunCfg)>) -> Vec<(String, RunCfg)> {
    v.into_iter().map(|(a, b)| (a.to_string(), b)).collect()
}

/// The configuration axes of C01/C02 (hints × runtime × activity).
fn full_axes(tier: &Tier) -> Vec<(String, RunCfg)> {
    let mut v = named(vec![
        ("sync", sync_cfg()),
        ("sync hints=All", hint_cfg(Hint::All)),
        ("async-fifo cands+deps", async_cfg(K_CANDS | K_DEPS, false)),
        ("async-lifo all-kinds hints=All", {
            let mut c = async_cfg(K_CANDS | K_DEPS | K_FILTER | K_SORT, true);
            c.hint_override = Some(Hint::All);
            c
        }),
    ]);
    if *tier == Tier::Quick {
        v.extend(named(vec![("sync activity(10,.5)", act_cfg(10.0, 0.5))]));
    }
    if *tier == Tier::Thorough {
        v.extend(named(vec![
            ("sync hints=None", hint_cfg(Hint::None)),
            ("sync activity(0,1)", act_cfg(0.0, 1.0)),
            ("sync activity(10,.5)", act_cfg(10.0, 0.5)),
            ("sync activity(1,0)", act_cfg(1.0, 0.0)),
            ("async-lifo cands+deps", async_cfg(K_CANDS | K_DEPS, true)),
        ]));
    }
    v
}

/// every subset of the three packages of a 3-name family answers hints = All, the others None
fn hint_mask_axes() -> Vec<(String, RunCfg)> {
    (0u64..8)
        .map(|m| {
            (
                format!("sync hints on packages {:03b}", m),
                RunCfg {
                    hint_mask: Some(m),
                    ..RunCfg::default()
                },
            )
        })
        .collect()
}

/// the given subsets of packages answer hints = All, the others None
fn hint_masks(masks: &[u64]) -> Vec<(String, RunCfg)> {
    masks
        .iter()
        .map(|&m| {
            (
                format!("sync hints on packages {:04b}", m),
                RunCfg {
                    hint_mask: Some(m),
                    ..RunCfg::default()
                },
            )
        })
        .collect()
}

/// F10 (late reveal) under per-package hint patterns: quick = none, p only, z+p, q+p, all; thorough = all 16
fn f10_axes(q: bool) -> Vec<(String, RunCfg)> {
    if q {
        hint_masks(&[0, 8, 12, 10, 15])
    } else {
        hint_masks(&(0u64..16).collect::<Vec<_>>())
    }
}

fn two_axes() -> Vec<(String, RunCfg)> {
    named(vec![("sync", sync_cfg()), ("sync hints=All", hint_cfg(Hint::All))])
}

fn no_filter(_: &Deco) -> bool {
    true
}

fn f3(k: usize, rich: bool) -> Box<dyn Family> {
    if k >= 3 {
        // three simultaneous decorations only on the skeletons with at most 7 solvables (the menus of
        // the larger ones have ~1000 items: 10^8 triples each)
        let small: Vec<Case> = skeletons().into_iter().filter(|c| c.u.solvs.len() <= 7).collect();
        return Box::new(Decorated::new("F3 skeletons with <= 7 solvables", small, k, false, &no_filter));
    }
    Box::new(Decorated::new("F3 skeletons", skeletons(), k, rich, &no_filter))
}

fn f3_filtered(k: usize, filter: &dyn Fn(&Deco) -> bool) -> Box<dyn Family> {
    if k >= 3 {
        let small: Vec<Case> = skeletons().into_iter().filter(|c| c.u.solvs.len() <= 7).collect();
        return Box::new(Decorated::new("F3 skeletons with <= 7 solvables", small, k, false, filter));
    }
    Box::new(Decorated::new("F3 skeletons", skeletons(), k, false, filter))
}

fn f2(root: RootMenu, filter: &dyn Fn(&Deco) -> bool) -> Box<dyn Family> {
    Box::new(GridDeco::new(Grid::f1().with_root(root), false, filter))
}

/// F4: order family 2x3 (rank permutations x favored x locked x listing order)
pub fn f4(tier: &Tier) -> Box<dyn Family> {
    let grid = Grid {
        label: "F4 order 2x3".into(),
        n_names: 2,
        n_vers: 3,
        edges: vec![vec![1], vec![]],
        root: RootMenu::List(vec![vec![7, 0], vec![7, 7]]),
        fixed: vec![],
    };
    let perms: Vec<[usize; 3]> = vec![[0, 1, 2], [0, 2, 1], [1, 0, 2], [1, 2, 0], [2, 0, 1], [2, 1, 0]];
    let a_perms = if *tier == Tier::Thorough { 6 } else { 2 };
    // b: perm(6) x favored(4) x locked(4) x listing(3); a: perm x favored(4)
    let mult = 6 * 4 * 4 * 3 * a_perms * 4;
    let g2 = grid.clone();
    Box::new(ExpandOwned {
        label: "rank perms x favored x locked x listing".into(),
        base: Box::new(grid),
        mult: mult as u64,
        f: Box::new(move |mut c: Case, mut k: u64| {
            let mut take = |n: u64| {
                let r = k % n;
                k /= n;
                r
            };
            let bp = perms[take(6) as usize];
            let bf = take(4);
            let bl = take(4);
            let bo = take(3);
            let ap = perms[take(a_perms as u64) as usize];
            let af = take(4);
            let b: Vec<Id> = (1..=3).map(|v| g2.solv_id(1, v)).collect();
            let a: Vec<Id> = (1..=3).map(|v| g2.solv_id(0, v)).collect();
            c.u.set_order(&[b[bp[0]], b[bp[1]], b[bp[2]]]);
            c.u.set_order(&[a[ap[0]], a[ap[1]], a[ap[2]]]);
            if bf > 0 {
                c.u.names[1].favored = Some(b[bf as usize - 1]);
            }
            if bl > 0 {
                c.u.names[1].locked = Some(b[bl as usize - 1]);
            }
            if af > 0 {
                c.u.names[0].favored = Some(a[af as usize - 1]);
            }
            match bo {
                1 => c.u.names[1].cands.reverse(),
                2 => c.u.names[1].cands.rotate_left(1),
                _ => {}
            }
            c.tag = format!("{} order-variant", c.tag);
            c
        }),
    })
}

pub struct ExpandOwned {
    pub label: String,
    pub base: Box<dyn Family>,
    pub mult: u64,
    pub f: Box<dyn Fn(Case, u64) -> Case + Sync + Send>,
}
impl Family for ExpandOwned {
    fn name(&self) -> String {
        format!("{} [{}]", self.base.name(), self.label)
    }
    fn len(&self) -> u64 {
        self.base.len() * self.mult
    }
    fn get(&self, idx: u64) -> Case {
        (self.f)(self.base.get(idx / self.mult), idx % self.mult)
    }
}

/// id-layout variant: every case also with junk rows (gap 3 and gap 130)
fn gapped(base: Box<dyn Family>) -> Box<dyn Family> {
    Box::new(ExpandOwned {
        label: "id layouts dense/gap3/gap130".into(),
        base,
        mult: 3,
        f: Box::new(|c, k| match k {
            0 => c,
            1 => with_gaps(&c, 3),
            _ => with_gaps(&c, 130),
        }),
    })
}

/// listing-order variant: every package lists its candidates in descending id order (ranks, and so the
/// expected results, are unchanged)
fn cands_reversed(base: Box<dyn Family>) -> Box<dyn Family> {
    Box::new(ExpandOwned {
        label: "candidates listed in descending id order".into(),
        base,
        mult: 1,
        f: Box::new(|mut c, _| {
            for n in c.u.names.iter_mut() {
                n.cands.reverse();
            }
            c.tag = format!("{} cands-reversed", c.tag);
            c
        }),
    })
}

fn e1_plan(prop: P, tier: &Tier) -> Vec<PlanItem> {
    let q = *tier == Tier::Quick;
    let item = |fam: Box<dyn Family>, cfgs: Vec<(String, RunCfg)>, stride: u64| PlanItem { fam, cfgs, stride };
    match prop {
        P::C01 | P::C02 | P::C05 => {
            let mut v = vec![
                item(
                    Box::new(Grid::f1().with_root(if q { RootMenu::AnyVersion } else { RootMenu::Full })),
                    full_axes(tier),
                    1,
                ),
                item(f3(2, !q), if q { two_axes() } else { full_axes(tier) }, 1),
                item(f4(tier), two_axes(), 1),
            ];
            if !q {
                v.push(item(f3(3, false), two_axes(), 1));
            }
            v.push(item(Box::new(F9 { wide: !q }), hint_mask_axes(), if q { 1 } else { 4 }));
            v.push(item(Box::new(F10), f10_axes(q), 1));
            v.push(item(Box::new(F14 { nt: 3 }), two_axes(), 1));
            if q {
                v.push(item(
                    Box::new(Grid::f1_prime().with_fixed(vec![(1, 2, 3), (2, 3, 3)])),
                    named(vec![("sync", sync_cfg())]),
                    1,
                ));
                v.push(item(f2(RootMenu::List(vec![vec![3, 0, 0], vec![3, 3, 3]]), &no_filter), named(vec![("sync", sync_cfg())]), 1));
            } else {
                v.push(item(Box::new(Grid::f1_prime()), named(vec![("sync", sync_cfg())]), 1));
                v.push(item(Box::new(Grid::f1_cyclic()), named(vec![("sync", sync_cfg())]), 1));
                v.push(item(f2(RootMenu::AnyVersion, &no_filter), two_axes(), 1));
            }
            if prop == P::C05 || prop == P::C01 {
                // soft requirements: accepted soft solvables are additional roots of the support
                v.push(item(Box::new(Decorated::new_with("F5 soft skeletons", soft_skeletons(), f5k(q), false, &f5_filter)), two_axes(), if q { 1 } else { 2 }));
                v.push(item(Box::new(F11), two_axes(), 1));
                v.push(item(Box::new(F12), two_axes(), 1));
                v.push(item(Box::new(F13), two_axes(), 1));
            }
            if prop == P::C02 {
                v.push(item(Box::new(F11), two_axes(), 1));
            }
            if prop == P::C02 {
                v.push(item(
                    gapped(Box::new(Grid::f1().with_root(RootMenu::AnyVersion))),
                    named(vec![("sync", sync_cfg())]),
                    if q { 4 } else { 1 },
                ));
            }
            v
        }
        P::C03 | P::C04 => {
            let mut v = vec![
                item(
                    Box::new(Grid::f1().with_root(if q { RootMenu::AnyVersion } else { RootMenu::Full })),
                    two_axes(),
                    1,
                ),
                item(f3(2, !q), two_axes(), 1),
                item(
                    f2(if q { RootMenu::List(vec![vec![3, 0, 0], vec![3, 3, 3]]) } else { RootMenu::AnyVersion }, &no_filter),
                    named(vec![("sync", sync_cfg())]),
                    1,
                ),
                item(
                    Box::new(Grid::f1_cyclic().with_root(RootMenu::List(vec![vec![3, 0, 0]]))),
                    named(vec![("sync", sync_cfg())]),
                    if q { 16 } else { 1 },
                ),
            ];
            v.push(item(Box::new(F9 { wide: false }), two_axes(), if q { 2 } else { 1 }));
            v.push(item(Box::new(F10), hint_masks(&[0, 8, 15]), 1));
            if prop == P::C04 {
                // the conflict is rendered while the provider's cancellation flag is up (a deadline that
                // passed between the solve and the report)
                v.push(item(
                    Box::new(Grid::f1().with_root(RootMenu::AnyVersion)),
                    named(vec![("sync, cancellation raised before rendering", RunCfg { cancel_before_render: true, ..RunCfg::default() })]),
                    1,
                ));
                v.push(item(
                    f3(1, false),
                    named(vec![("sync, cancellation raised before rendering", RunCfg { cancel_before_render: true, ..RunCfg::default() })]),
                    1,
                ));
                v.push(item(
                    Box::new(Decorated::new_with("F5 soft skeletons", soft_skeletons(), f5k(q), false, &f5_filter)),
                    named(vec![("sync", sync_cfg()), ("sync hints=All", hint_cfg(Hint::All)), ("async-fifo", async_cfg(K_CANDS | K_DEPS, false))]),
                    1,
                ));
                // F4 lists candidates in non-ascending id order: with hints=All the hint list is then not
                // ordered by id either (the trait does not tie the order of either list to the ids)
                v.push(item(f4(tier), two_axes(), if q { 8 } else { 1 }));
                v.push(item(cands_reversed(f3(1, false)), two_axes(), 1));
                v.push(item(Box::new(F11), two_axes(), 1));
                v.push(item(Box::new(F13), two_axes(), 1));
            }
            if !q {
                v.push(item(Box::new(Grid::f1_prime()), named(vec![("sync", sync_cfg())]), 1));
                v.push(item(f3(3, false), named(vec![("sync", sync_cfg())]), 1));
            }
            v
        }
        P::C07 => {
            let mut v = vec![
                item(Box::new(Grid::f1()), two_axes(), 1),
                item(f3(if q { 2 } else { 3 }, false), two_axes(), 1),
                item(f4(tier), two_axes(), 1),
            ];
            if !q {
                v.push(item(Box::new(Grid::f1_prime()), named(vec![("sync", sync_cfg())]), 1));
                v.push(item(f2(RootMenu::AnyVersion, &no_filter), named(vec![("sync", sync_cfg())]), 1));
            }
            v
        }
        P::C08 => {
            let mut v = vec![
                item(Box::new(F8), two_axes(), 1),
                item(Box::new(Grid::f1()), two_axes(), 1),
                item(f4(tier), named(vec![("sync", sync_cfg())]), 1),
                item(f3_filtered(2, &|d| !matches!(d, Deco::AddUnion(Src::Root, _) | Deco::Soft(_))), two_axes(), 1),
            ];
            v.push(item(Box::new(F10), f10_axes(q), 1));
            v.push(item(Box::new(F14 { nt: 3 }), two_axes(), 1));
            if !q {
                v.push(item(Box::new(F14 { nt: 4 }), named(vec![("sync", sync_cfg())]), 1));
                v.push(item(f3_filtered(3, &|d| !matches!(d, Deco::AddUnion(Src::Root, _) | Deco::Soft(_))), named(vec![("sync", sync_cfg())]), 1));
            }
            if q {
                v.push(item(
                    Box::new(Grid::f1_prime().with_fixed(vec![(1, 2, 3), (2, 3, 3)])),
                    named(vec![("sync", sync_cfg())]),
                    1,
                ));
            } else {
                v.push(item(Box::new(Grid::f1_prime()), named(vec![("sync", sync_cfg())]), 1));
            }
            v
        }
        P::C09 => vec![
            item(Box::new(Grid::f1()), named(vec![("sync", sync_cfg()), ("sync hints=Some(empty list)", hint_cfg(Hint::Some(vec![])))]), 1),
            item(f3_filtered(2, &|d| !matches!(d, Deco::Hint(..))), named(vec![("sync", sync_cfg()), ("sync hints=Some(empty list)", hint_cfg(Hint::Some(vec![])))]), 1),
            item(f3_filtered(if q { 1 } else { 3 }, &|d| !matches!(d, Deco::Hint(..))), named(vec![("sync", sync_cfg())]), 1),
            item(f4(tier), named(vec![("sync", sync_cfg())]), if q { 4 } else { 1 }),
        ],
        P::C14 => vec![
            item(
                Box::new(Decorated::new_with("F5 soft skeletons", soft_skeletons(), f5k(q), false, &f5_filter)),
                two_axes(),
                1,
            ),
            item(
                Box::new(GridDeco::new(Grid::f1().with_root(RootMenu::AnyVersion), false, &|d| matches!(d, Deco::Soft(_)))),
                two_axes(),
                1,
            ),
            item(Box::new(F11), two_axes(), 1),
            // hints on the shared packages only (a; x; a and x): candidates that are encoded ahead of time
            // under the transient decisions of one soft run and needed again by a later one
            item(Box::new(F11), hint_masks(&[0b001000, 0b010000, 0b011000]), 1),
            item(Box::new(F12), two_axes(), 1),
            item(Box::new(F13), two_axes(), 1),
        ],
    }
}

fn e1_rule(prop: P) -> (&'static str, Vec<&'static str>) {
    match prop {
        P::C01 => (
            "every (universe, problem) of the listed finite families is built and solved by the real Solver under every listed configuration; non-trivial = distinct case whose solve returned a solution of >= 2 solvables (validity then has something to constrain)",
            vec!["universes of the stated families only (<= 4 packages, <= 3 versions, <= 3 decorations)", "the oracle is an independent brute-force statement of the package rules"],
        ),
        P::C02 => (
            "same enumeration as C01; verdict compared with brute-force satisfiability; every clause of the dumped clause database checked against the provider data and every learnt clause checked on all assignments; non-trivial = distinct case with verdict Unsolvable or with >= 1 learnt clause",
            vec!["clause dump comes from the read-only verif-hooks feature", "learnt-clause certification limited to <= 18 variables (larger are counted as skipped)"],
        ),
        P::C03 => (
            "every Unsolvable case of the enumeration: Conflict::graph extracted and checked edge by edge, for reachability and (by enumeration of all subsets of its solvable nodes) for being a proof; non-trivial = distinct case that produced a conflict graph",
            vec!["graphs with > 20 solvable nodes are not proof-checked (counted)"],
        ),
        P::C04 => (
            "every case of the enumeration is solved and, if Unsolvable, rendered (graph, graphviz x2, user-friendly message through a 1 MiB capped sink) under catch_unwind and a wall-clock monitor; non-trivial = every distinct case (each is a separate execution that could panic)",
            vec!["well-formed providers only (Universe::well_formed)", "message size bound = number of lines in the cycle-cut tree unfolding of the graph"],
        ),
        P::C05 => (
            "every Ok result of the enumeration: solution must equal its own support (least fixpoint from root/accepted soft along requirement edges into the solution); non-trivial = distinct case with a solution of >= 2 solvables",
            vec![],
        ),
        P::C07 => (
            "enumeration as C01 incl. all rank permutations / favored / listing orders (F4); premise of C07 evaluated literally by the oracle; non-trivial = distinct case for which the premise holds",
            vec![],
        ),
        P::C08 => (
            "enumeration restricted to single-version-set roots; premise (a model containing every first-ranked direct candidate exists) decided by brute force; non-trivial = distinct case for which the premise holds",
            vec![],
        ),
        P::C09 => (
            "provider call log of every solve (hints forced to None) walked in order against the causality rules; non-trivial = distinct case in which laziness was observable (a listed candidate of a fetched package was never fetched)",
            vec!["sync runtime"],
        ),
        P::C14 => (
            "F5: skeleton universes + unreferenced package z, every subset of <= k soft/exclude/lock/unknown decorations (soft lists in menu order) and F1 x one soft solvable; non-trivial = distinct case with soft requirements that returned a solution",
            vec!["inclusion rule evaluated for the first soft solvable only"],
        ),
    }
}

fn is_wellformed(c: &Case) -> bool {
    c.u.well_formed(&c.p).is_ok()
}

pub fn run_e1(ctx: &Ctx, prop: P) -> i32 {
    let plan = e1_plan(prop, &ctx.tier);
    let (rule, assumptions) = e1_rule(prop);
    let mut rep = Report::new("model_checking", rule);
    rep.assumptions = assumptions.into_iter().map(String::from).collect();
    rep.assumptions.push(format!(
        "this pass ran the {} build (debug assertions {})",
        ctx.pass,
        if cfg!(debug_assertions) { "on" } else { "off" }
    ));
    let mut total_states = 0u64;
    let mut total_transitions = 0u64;
    let plan = std::sync::Arc::new(plan);
    for (fi, it) in plan.iter().enumerate() {
        let fam = &*it.fam;
        let cfgs = &it.cfgs;
        let opts = SweepOpts {
            threads: threads(),
            wall_limit_s: 30,
            on_stuck: Box::new({
                let plan = plan.clone();
                let prop_id = prop.id().to_string();
                move |f, idx| {
                    let case = plan[f].fam.get(idx);
                    let cfgs: Vec<RunCfg> = plan[f].cfgs.iter().map(|c| prop.shape(c.1.clone())).collect();
                    if prop_id == "C04" {
                        // executed once more, alone on a fresh thread with a generous limit: only an
                        // execution that still does not come back is reported
                        let (c2, cfgs2) = (case.clone(), cfgs.clone());
                        if finishes_within(300, move || {
                            for cfg in &cfgs2 {
                                let _ = run_case(&c2.u, &c2.p, cfg);
                            }
                        }) {
                            eprintln!("NOTE: an execution exceeded the wall limit at family {f} index {idx} but finishes when run again alone (machine overloaded?); not a verdict");
                            NOT_REPRODUCED.fetch_add(1, std::sync::atomic::Ordering::SeqCst);
                            return None;
                        }
                        Some(Violation {
                            property: prop_id.clone(),
                            signature: "nontermination".into(),
                            what: "an execution (solve or conflict rendering) exceeded the 30 s wall limit".into(),
                            replay: json!({"kind": "stuck-e1", "case": case, "cfgs": cfgs, "universe": case.u.describe(&case.p)}),
                            order: (f, idx, 0),
                        })
                    } else {
                        eprintln!("NOTE: an execution exceeded the wall limit at family {f} index {idx}; termination is C04's subject, the case is skipped here");
                        None
                    }
                }
            }),
            fam_no: fi,
            stride: it.stride,
            offset: if it.stride > 1 { ctx.seed % it.stride } else { 0 },
        };
        let acc = sweep(fam, &opts, &|idx, case, acc| {
            if !is_wellformed(case) {
                acc.count("skipped_not_wellformed");
                return;
            }
            for (ci, (_, cfg)) in cfgs.iter().enumerate() {
                e1::check(prop, case, cfg, (fi, idx, ci as u32), acc);
            }
            acc.count("cases");
        });
        total_states += acc.get("cases");
        total_transitions += acc.evaluations;
        let name = format!(
            "{} x [{}]{}",
            fam.name(),
            cfgs.iter().map(|c| c.0.clone()).collect::<Vec<_>>().join(", "),
            if it.stride > 1 { format!(" (every {}th index, offset from VERIF_SEED)", it.stride) } else { String::new() }
        );
        eprintln!(
            "[{}] {}: {} cases, {} runs, {:.1}s",
            prop.id(),
            name,
            acc.get("cases"),
            acc.evaluations,
            ctx.t0.elapsed().as_secs_f64()
        );
        rep.push(&name, acc, it.stride == 1, fam.len());
    }
    if prop == P::C08 {
        // the interference family under completion orders, with and without availability hints
        let q = ctx.tier == Tier::Quick;
        let fam = F8;
        let plans: Vec<AsyncPlan> = [None, Some(Hint::All)]
            .into_iter()
            .map(|hint| AsyncPlan { sort_cb: SortCallback::None, hint_mask: None, mask: K_CANDS | K_DEPS, pairs: false, hint, complete_cap: if q { 60 } else { 3000 }, dev_bound: if q { 1 } else { 2 }, dev_cap: if q { 60 } else { 3000 } })
            .collect();
        let opts = SweepOpts {
            threads: threads(),
            wall_limit_s: 120,
            on_stuck: Box::new(|f, idx| {
                eprintln!("NOTE: C08 async exploration stuck at {f}/{idx}");
                None
            }),
            fam_no: 91,
            stride: if q { 2 } else { 1 },
            offset: if q { ctx.seed % 2 } else { 0 },
        };
        let acc = sweep(&fam, &opts, &|idx, case, acc| {
            acc.count("cases");
            for (pi, pl) in plans.iter().enumerate() {
                e2::check_c08_async(case, pl, (91, idx, pi as u32), acc);
            }
        });
        total_states += acc.get("cases");
        total_transitions += acc.evaluations;
        eprintln!("[C08] F8 under completion orders: {} cases, {} schedules, {:.1}s", acc.get("cases"), acc.get("schedules"), ctx.t0.elapsed().as_secs_f64());
        rep.push("F8 x completion orders (controlled executor; hints as-is and All)", acc, !q, fam.len());
        // F8b: every subset of packages hinted, complete schedule trees
        let famb = F8b;
        let plans_b: Vec<AsyncPlan> = (0u64..32)
            .filter(|m| q == false || [0u64, 31, 24, 4, 28, 8, 16].contains(m))
            .map(|m| AsyncPlan { sort_cb: SortCallback::None, hint_mask: Some(m), mask: K_CANDS | K_DEPS, pairs: false, hint: None, complete_cap: if q { 400 } else { 20000 }, dev_bound: 2, dev_cap: if q { 400 } else { 20000 } })
            .collect();
        let opts = SweepOpts {
            threads: threads(),
            wall_limit_s: 120,
            on_stuck: Box::new(|f, idx| {
                eprintln!("NOTE: C08 async exploration stuck at {f}/{idx}");
                None
            }),
            fam_no: 92,
            stride: 1,
            offset: 0,
        };
        let acc = sweep(&famb, &opts, &|idx, case, acc| {
            acc.count("cases");
            for (pi, pl) in plans_b.iter().enumerate() {
                e2::check_c08_async(case, pl, (92, idx, pi as u32), acc);
            }
            // and synchronously under the same hint patterns
            for pl in plans_b.iter() {
                let cfg = RunCfg { hint_mask: pl.hint_mask, ..RunCfg::default() };
                e1::check(P::C08, case, &cfg, (92, idx, 99), acc);
            }
        });
        total_states += acc.get("cases");
        total_transitions += acc.evaluations;
        eprintln!("[C08] F8b under completion orders x hint patterns: {} cases, {} schedules, {:.1}s", acc.get("cases"), acc.get("schedules"), ctx.t0.elapsed().as_secs_f64());
        rep.push("F8b x hint patterns x completion orders (controlled executor)", acc, true, famb.len());
    }
    if prop == P::C09 || prop == P::C02 {
        // C09: "each at most once per solver" also when requests overlap (asynchronous provider, providers
        // that read metadata through the cache from sort_candidates); C02: the verdict must not depend on
        // the order in which metadata happened to be fetched - both under completion orders
        let q = ctx.tier == Tier::Quick;
        let label: &'static str = if prop == P::C09 { "C09" } else { "C02" };
        let fam = Decorated::new("F3 skeletons", skeletons(), 1, false, &|d| !matches!(d, Deco::Soft(_) | Deco::Hint(..)));
        let cap = if q { 150 } else { 3000 };
        let mut plans: Vec<AsyncPlan> = vec![AsyncPlan { sort_cb: SortCallback::None, hint_mask: None, mask: K_CANDS | K_DEPS, pairs: false, hint: None, complete_cap: cap, dev_bound: if q { 1 } else { 2 }, dev_cap: cap }];
        if prop == P::C09 {
            plans.push(AsyncPlan { sort_cb: SortCallback::DepsOfSorted, hint_mask: None, mask: K_CANDS | K_DEPS, pairs: false, hint: None, complete_cap: cap, dev_bound: if q { 1 } else { 2 }, dev_cap: cap });
        } else {
            plans.push(AsyncPlan { sort_cb: SortCallback::None, hint_mask: None, mask: K_CANDS | K_DEPS, pairs: false, hint: Some(Hint::All), complete_cap: cap, dev_bound: if q { 1 } else { 2 }, dev_cap: cap });
            plans.push(AsyncPlan { sort_cb: SortCallback::None, hint_mask: None, mask: K_CANDS | K_DEPS, pairs: true, hint: None, complete_cap: cap, dev_bound: 1, dev_cap: cap });
        }
        let fams: Vec<(Box<dyn Family>, u64)> = vec![(Box::new(fam), 1), (Box::new(F8b), 1), (Box::new(F10), if q { 997 } else { 61 })];
        for (k, (fam, stride)) in fams.iter().enumerate() {
            let opts = SweepOpts {
                threads: threads(),
                wall_limit_s: 120,
                on_stuck: Box::new(|f, idx| {
                    eprintln!("NOTE: async exploration stuck at {f}/{idx}");
                    None
                }),
                fam_no: 94 + k,
                stride: *stride,
                offset: if *stride > 1 { ctx.seed % *stride } else { 0 },
            };
            let acc = sweep(&**fam, &opts, &|idx, case, acc| {
                if !is_wellformed(case) {
                    return;
                }
                acc.count("cases");
                for (pi, pl) in plans.iter().enumerate() {
                    e2::check_c10_c11(label, case, pl, (94 + k, idx, pi as u32), acc);
                }
                if prop == P::C09 {
                    // ... and over successive solves when the first one was cancelled at any poll
                    e2::check_c09_cancel_reuse(case, (94 + k, idx, 90), acc);
                }
            });
            total_states += acc.get("cases");
            total_transitions += acc.evaluations;
            eprintln!("[{label}] {} under completion orders: {} cases, {} schedules, {:.1}s", fam.name(), acc.get("cases"), acc.get("schedules"), ctx.t0.elapsed().as_secs_f64());
            rep.push(&format!("{} x completion orders (controlled executor)", fam.name()), acc, *stride == 1, fam.len());
        }
    }
    if prop == P::C04 {
        // termination without panicking also for providers that use the SolverCache from inside
        // sort_candidates, under completion orders of the provider's answers
        let q = ctx.tier == Tier::Quick;
        let fam = Decorated::new("F3 skeletons", skeletons(), 1, false, &|d| !matches!(d, Deco::Soft(_)));
        let plans: Vec<AsyncPlan> = [SortCallback::DepsOfSorted, SortCallback::CandsOfMentioned]
            .into_iter()
            .map(|cb| AsyncPlan { sort_cb: cb, hint_mask: None, mask: K_CANDS | K_DEPS, pairs: false, hint: None, complete_cap: if q { 120 } else { 3000 }, dev_bound: if q { 1 } else { 2 }, dev_cap: if q { 120 } else { 3000 } })
            .collect();
        let opts = SweepOpts {
            threads: threads(),
            wall_limit_s: 120,
            on_stuck: Box::new(|f, idx| {
                eprintln!("NOTE: C04 async exploration stuck at {f}/{idx}");
                None
            }),
            fam_no: 93,
            stride: 1,
            offset: 0,
        };
        let acc = sweep(&fam, &opts, &|idx, case, acc| {
            if !is_wellformed(case) {
                return;
            }
            acc.count("cases");
            for (pi, pl) in plans.iter().enumerate() {
                e2::check_c10_c11("C04", case, pl, (93, idx, pi as u32), acc);
            }
        });
        total_states += acc.get("cases");
        total_transitions += acc.evaluations;
        eprintln!("[C04] F3 skeletons with re-entrant sort_candidates under completion orders: {} cases, {} schedules, {:.1}s", acc.get("cases"), acc.get("schedules"), ctx.t0.elapsed().as_secs_f64());
        rep.push("F3 skeletons (<= 1 decoration) x providers that call the SolverCache from sort_candidates x completion orders (controlled executor)", acc, true, fam.len());
    }
    if prop == P::C07 {
        // union requirements under every completion order of the candidate / dependency requests
        let q = ctx.tier == Tier::Quick;
        let fam = Decorated::new("F3 skeletons with unions", skeletons(), if q { 1 } else { 2 }, true, &|d| matches!(d, Deco::AddUnion(..) | Deco::Favor(_)));
        let aplan = AsyncPlan { sort_cb: SortCallback::None, hint_mask: None, mask: K_CANDS | K_DEPS | if q { 0 } else { K_SORT | K_FILTER }, pairs: false, hint: None, complete_cap: if q { 2000 } else { 20000 }, dev_bound: 2, dev_cap: if q { 2000 } else { 20000 } };
        let opts = SweepOpts {
            threads: threads(),
            wall_limit_s: 120,
            on_stuck: Box::new(|f, idx| {
                eprintln!("NOTE: C07 async exploration stuck at {f}/{idx}");
                None
            }),
            fam_no: 90,
            stride: 1,
            offset: 0,
        };
        let acc = sweep(&fam, &opts, &|idx, case, acc| {
            if !is_wellformed(case) || case.u.unions.is_empty() {
                return;
            }
            acc.count("cases");
            e2::check_c07_async(case, &aplan, (90, idx, 0), acc);
        });
        total_states += acc.get("cases");
        total_transitions += acc.evaluations;
        eprintln!("[C07] union sub-family under every completion order: {} cases, {} schedules, {:.1}s", acc.get("cases"), acc.get("schedules"), ctx.t0.elapsed().as_secs_f64());
        rep.push("F3 skeletons with union requirements x every completion order (controlled executor)", acc, true, fam.len());
    }
    rep.extra.insert("states".into(), json!(total_states));
    rep.extra.insert("transitions".into(), json!(total_transitions));
    rep.extra.insert("traces_validated_against_impl".into(), json!(total_transitions));
    rep.extra.insert(
        "explanation".into(),
        json!("states = distinct (universe, problem) instances enumerated; transitions = executions of the real solver on them (one per configuration); there is no separate model: every enumerated behaviour is an execution of the implementation, so all of them are 'validated against the implementation' by construction"),
    );
    // vacuity guards
    match prop {
        P::C01 | P::C05 => {
            let ok = rep.counter("result_ok");
            rep.require(ok > 1000, "too few Ok results");
            let l = rep.counter("runs_with_learnt_clause");
            rep.require(l > 0, "no run produced a learnt clause");
        }
        P::C02 => {
            let a = rep.counter("result_unsolvable");
            let b = rep.counter("sat_after_conflict");
            let c = rep.counter("learnt_clauses_certified");
            rep.require(a > 100 && b > 0 && c > 0, "no UNSAT verdicts / no SAT-after-conflict / no learnt clause certified");
        }
        P::C03 => {
            let a = rep.counter("graphs");
            let b = rep.counter("graphs_after_learning");
            rep.require(a > 100 && b > 0, "no conflict graphs / none after learning");
        }
        P::C04 => {
            let a = rep.counter("conflicts_rendered");
            rep.require(a > 100, "no conflicts rendered");
        }
        P::C07 | P::C08 => {
            let a = rep.counter("premise_holds");
            rep.require(a > 100, "premise never holds");
        }
        P::C09 => {
            let a = rep.counter("runs_with_unfetched_candidate");
            let b = rep.counter("conflict_free");
            rep.require(a > 0 && b > 0, "laziness never observable");
        }
        P::C14 => {
            let a = rep.counter("soft_accepted");
            let b = rep.counter("soft_rejected");
            rep.require(a > 0 && b > 0, "soft requirements never accepted / never rejected");
        }
    }
    rep.finish(ctx)
}

pub fn run_property(ctx: &Ctx) -> i32 {
    if let Some(p) = P::parse(&ctx.property) {
        return run_e1(ctx, p);
    }
    match ctx.property.as_str() {
        "C10" | "C11" | "C12" | "C13" => return run_e2(ctx),
        "C06" => return crate::e6::run(ctx),
        "C15" => return crate::e15::run(ctx),
        "C16" => return crate::e16::run(ctx),
        "C18" => return crate::e4::run_c18(ctx),
        "C19" => return crate::e4::run_c19(ctx),
        "C20" => return crate::e4::run_c20(ctx),
        _ => {}
    }
    eprintln!("unknown property {}", ctx.property);
    2
}

/// Re-runs one recorded violation without the explorer. Exit 1 iff it still fails.
pub fn replay(path: &str) -> i32 {
    let text = match std::fs::read_to_string(path) {
        Ok(t) => t,
        Err(e) => {
            eprintln!("cannot read {path}: {e}");
            return 2;
        }
    };
    let v: Value = serde_json::from_str(&text).expect("replay file is not JSON");
    let prop = v["property"].as_str().unwrap_or("").to_string();
    let r = &v["replay"];
    match r["kind"].as_str() {
        Some("e1") => {
            let case: Case = serde_json::from_value(r["case"].clone()).expect("case");
            let cfg: RunCfg = serde_json::from_value(r["cfg"].clone()).expect("cfg");
            let p = P::parse(&prop).expect("property");
            let mut outs = vec![];
            for _ in 0..2 {
                let mut acc = Acc::default();
                e1::check(p, &case, &cfg, (0, 0, 0), &mut acc);
                outs.push(acc.violations.iter().map(|v| v.signature.clone()).collect::<Vec<_>>());
            }
            if outs[0] != outs[1] {
                eprintln!("MACHINERY ERROR: replay is not deterministic: {:?} vs {:?}", outs[0], outs[1]);
                return 2;
            }
            if outs[0].is_empty() {
                println!("replay: no violation");
                0
            } else {
                println!("replay: still fails: {:?}", outs[0]);
                println!("VIOLATION property={prop} replay={path}");
                1
            }
        }
        Some(k @ ("c06" | "c06-digest" | "c15" | "c16" | "c18" | "c19" | "c20" | "c20-solve" | "c20-async" | "c20-inflight" | "c20-guarded" | "c11-cache-union")) => {
            let f = |r: &Value| match k {
                "c06" | "c06-digest" => crate::e6::replay(r),
                "c15" => crate::e15::replay(r),
                "c16" => crate::e16::replay(r),
                "c18" => crate::e4::replay_c18(r),
                "c19" => crate::e4::replay_c19(r),
                _ => crate::e4::replay_c20(r),
            };
            let a = f(r);
            let b = f(r);
            if a != b {
                eprintln!("MACHINERY ERROR: replay is not deterministic");
                return 2;
            }
            if a.is_empty() {
                println!("replay: no violation");
                0
            } else {
                println!("replay: still fails: {a:?}");
                println!("VIOLATION property={prop} replay={path}");
                1
            }
        }
        Some("e2") => {
            let a = crate::e2::replay(r);
            let b = crate::e2::replay(r);
            if a != b {
                eprintln!("MACHINERY ERROR: replay is not deterministic: {a:?} vs {b:?}");
                return 2;
            }
            if a.is_empty() {
                println!("replay: no violation");
                0
            } else {
                println!("replay: still fails: {a:?}");
                println!("VIOLATION property={prop} replay={path}");
                1
            }
        }
        Some("stuck-e1") => {
            let case: Case = serde_json::from_value(r["case"].clone()).expect("case");
            let cfgs: Vec<RunCfg> = serde_json::from_value(r["cfgs"].clone()).expect("cfgs");
            let (tx, rx) = std::sync::mpsc::channel();
            std::thread::spawn(move || {
                for cfg in &cfgs {
                    let _ = run_case(&case.u, &case.p, cfg);
                }
                let _ = tx.send(());
            });
            match rx.recv_timeout(std::time::Duration::from_secs(300)) {
                Ok(()) => {
                    println!("replay: terminates");
                    0
                }
                Err(_) => {
                    println!("replay: still does not terminate within 300 s");
                    println!("VIOLATION property={prop} replay={path}");
                    1
                }
            }
        }
        k => {
            eprintln!("unknown replay kind {k:?}");
            2
        }
    }
}

/// Debug aid: run the case of a replay file with logging and print everything.
pub fn show(path: &str) {
    let text = std::fs::read_to_string(path).expect("read");
    let v: Value = serde_json::from_str(&text).expect("json");
    let r = &v["replay"];
    let case: Case = serde_json::from_value(r["case"].clone()).expect("case");
    let mut cfg: RunCfg = serde_json::from_value(r["cfg"].clone()).expect("cfg");
    cfg.log = true;
    cfg.dump = true;
    cfg.render = true;
    println!("{}", serde_json::to_string_pretty(&case.u.describe(&case.p)).unwrap());
    let res = run_case(&case.u, &case.p, &cfg);
    println!("outcome: {}", res.outcome.short());
    println!("render panic: {:?}", res.render_panic);
    println!("log: {:?}", res.log);
    if let Some(d) = &res.dump {
        for (i, c) in d.clauses.iter().enumerate() {
            println!("clause {i}: {:?} {:?} why={:?}", c.kind, c.literals, c.why);
        }
        println!("trail: {:?}", d.trail);
    }
    if let Some(m) = &res.rendered.message {
        println!("message:\n{}", m.chars().take(3000).collect::<String>());
    }
    println!("graph: {}", serde_json::to_string(&res.rendered.graph).unwrap());
}

// ---------------------------------------------------------------------------
// E2 / E3 / E4 plans (C10 - C13)
// ---------------------------------------------------------------------------

fn generic_stuck(prop: String, fams: std::sync::Arc<Vec<(Box<dyn Family>, u64)>>, recheck: std::sync::Arc<dyn Fn(&Case) + Send + Sync>) -> Box<dyn Fn(usize, u64) -> Option<Violation> + Sync + Send> {
    Box::new(move |f, idx| {
        let case = fams[f].0.get(idx);
        if prop == "C10" || prop == "C13" {
            // explored once more, alone on a fresh thread with a generous limit, before it is reported
            let (c2, r2) = (case.clone(), recheck.clone());
            if finishes_within(900, move || r2(&c2)) {
                eprintln!("NOTE: the exploration of family {f} index {idx} exceeded the wall limit but finishes when run again alone (machine overloaded?); not a verdict");
                NOT_REPRODUCED.fetch_add(1, std::sync::atomic::Ordering::SeqCst);
                return None;
            }
            Some(Violation {
                property: prop.clone(),
                signature: "nontermination".into(),
                what: "the exploration of one instance exceeded the wall limit (an execution does not terminate)".into(),
                replay: json!({"kind": "stuck", "case": case, "universe": case.u.describe(&case.p)}),
                order: (f, idx, 0),
            })
        } else {
            eprintln!("NOTE: an execution exceeded the wall limit at family {f} index {idx}; skipped");
            None
        }
    })
}

/// F7: the tiny async family (small universes whose FIFO run issues few requests)
fn f7(tier: &Tier) -> Vec<(Box<dyn Family>, u64)> {
    let q = *tier == Tier::Quick;
    vec![
        (
            Box::new(Decorated::new("F3 skeletons", skeletons(), 1, false, &|d| !matches!(d, Deco::Soft(_)))) as Box<dyn Family>,
            1,
        ),
        (
            Box::new(Grid::f1().with_root(RootMenu::List(vec![vec![3, 0, 0], vec![3, 3, 0], vec![3, 3, 3], vec![1, 0, 2]]))),
            if q { 16 } else { 4 },
        ),
        // the interference families (constrains between transitive packages, back edges)
        (Box::new(F8b), 1),
        (Box::new(F9 { wide: false }), if q { 997 } else { 97 }),
        // a package first revealed after a decision for another transitive package (matters with hints)
        (Box::new(F10), if q { 499 } else { 61 }),
    ]
}

pub fn run_e2(ctx: &Ctx) -> i32 {
    let prop = ctx.property.clone();
    let q = ctx.tier == Tier::Quick;
    let (rule, level): (&str, &'static str) = match prop.as_str() {
        "C10" => ("for every instance of the tiny async family every completion order of parked provider futures is executed on the real solver under a controlled single-threaded executor (complete schedule tree when it has <= cap runs, otherwise all schedules with <= d deviations from FIFO); non-trivial = distinct instance on which >= 2 different provider call orders were observed", "model_checking"),
        "C11" => ("every quiescent point of every schedule explored as in C10: every package mentioned by dependency information already delivered must have its get_candidates request issued; non-trivial = distinct instance whose root mentions >= 2 packages", "model_checking"),
        "C12" => ("for every instance: baseline run counts K polls of should_cancel_with_value; then for every k < K and mode in {sticky, transient} the run is repeated with cancellation firing at poll k (sync), and for the async family for every k and every schedule with bounded deviations; non-trivial = distinct instance with >= 2 poll points", "fault_enumeration"),
        _ => ("all sequences of solve calls (length <= depth) over a 5-problem alphabet on ONE solver, optionally with one call cancelled at every poll index (sync), and [cancelled call under every schedule, then a second call] (async); each call compared with a fresh solver; non-trivial = every distinct universe explored this way", "model_checking"),
    };
    let mut rep = Report::new(level, rule);
    rep.assumptions.push("single-threaded executor that completes one (or, with pairs, two) parked provider future(s) per quiescent point".into());
    let mut states = 0u64;
    let mut transitions = 0u64;
    let fams: Vec<(Box<dyn Family>, u64)> = match prop.as_str() {
        "C12" | "C13" => {
            let mut v = f7(&ctx.tier);
            v.push((
                Box::new(Decorated::new("F5 soft skeletons", soft_skeletons(), 1, false, &|d| matches!(d, Deco::Soft(_)))),
                if q { 4 } else { 1 },
            ));
            v
        }
        _ => f7(&ctx.tier),
    };
    let plans: Vec<AsyncPlan> = if q {
        vec![
            AsyncPlan { sort_cb: SortCallback::None, hint_mask: None, mask: K_CANDS | K_DEPS, pairs: false, hint: None, complete_cap: 3000, dev_bound: 2, dev_cap: 3000 },
            AsyncPlan { sort_cb: SortCallback::None, hint_mask: None, mask: K_CANDS | K_DEPS, pairs: false, hint: Some(Hint::All), complete_cap: 1000, dev_bound: 1, dev_cap: 1000 },
            // two answers becoming ready inside one poll
            AsyncPlan { sort_cb: SortCallback::None, hint_mask: None, mask: K_CANDS | K_DEPS, pairs: true, hint: None, complete_cap: 300, dev_bound: 1, dev_cap: 300 },
            // hints on every second package only
            AsyncPlan { sort_cb: SortCallback::None, hint_mask: Some(0b10101), mask: K_CANDS | K_DEPS, pairs: false, hint: None, complete_cap: 300, dev_bound: 1, dev_cap: 300 },
            // ... and on the other packages only
            AsyncPlan { sort_cb: SortCallback::None, hint_mask: Some(0b01010), mask: K_CANDS | K_DEPS, pairs: false, hint: None, complete_cap: 300, dev_bound: 1, dev_cap: 300 },
            // filter_candidates and sort_candidates suspend as well
            AsyncPlan { sort_cb: SortCallback::None, hint_mask: None, mask: K_CANDS | K_DEPS | K_FILTER | K_SORT, pairs: false, hint: None, complete_cap: 300, dev_bound: 1, dev_cap: 300 },
        ]
    } else {
        vec![
            AsyncPlan { sort_cb: SortCallback::None, hint_mask: None, mask: K_CANDS | K_DEPS, pairs: false, hint: None, complete_cap: 20000, dev_bound: 3, dev_cap: 50000 },
            AsyncPlan { sort_cb: SortCallback::None, hint_mask: None, mask: K_CANDS | K_DEPS | K_FILTER | K_SORT, pairs: false, hint: Some(Hint::All), complete_cap: 20000, dev_bound: 2, dev_cap: 50000 },
            AsyncPlan { sort_cb: SortCallback::None, hint_mask: None, mask: K_CANDS | K_DEPS, pairs: true, hint: None, complete_cap: 20000, dev_bound: 2, dev_cap: 50000 },
            AsyncPlan { sort_cb: SortCallback::None, hint_mask: Some(0b10101), mask: K_CANDS | K_DEPS, pairs: false, hint: None, complete_cap: 5000, dev_bound: 2, dev_cap: 5000 },
            AsyncPlan { sort_cb: SortCallback::None, hint_mask: Some(0b01010), mask: K_CANDS | K_DEPS, pairs: false, hint: None, complete_cap: 5000, dev_bound: 2, dev_cap: 5000 },
        ]
    };
    let mut plans = plans;
    // providers whose sort_candidates calls back into the SolverCache (the reason the cache is handed to
    // sort_candidates): the requests issued from inside the callback race with the solver's own
    if prop == "C10" || prop == "C13" {
        let (cap, dev) = if q { (300, 1) } else { (3000, 2) };
        plans.push(AsyncPlan { sort_cb: SortCallback::DepsOfSorted, hint_mask: None, mask: K_CANDS | K_DEPS, pairs: false, hint: None, complete_cap: cap, dev_bound: dev, dev_cap: cap });
        plans.push(AsyncPlan { sort_cb: SortCallback::DepsOfSorted, hint_mask: None, mask: K_CANDS | K_DEPS | K_SORT, pairs: false, hint: Some(Hint::All), complete_cap: cap / 2, dev_bound: dev, dev_cap: cap / 2 });
        plans.push(AsyncPlan { sort_cb: SortCallback::CandsOfMentioned, hint_mask: None, mask: K_CANDS | K_DEPS, pairs: false, hint: None, complete_cap: cap / 2, dev_bound: dev, dev_cap: cap / 2 });
    }
    match std::env::var("VERIF_SORT_CB").as_deref() {
        Ok("deps") => plans.iter_mut().for_each(|p| p.sort_cb = SortCallback::DepsOfSorted),
        Ok("cands") => plans.iter_mut().for_each(|p| p.sort_cb = SortCallback::CandsOfMentioned),
        _ => {}
    }
    let fams = std::sync::Arc::new(fams);
    for (fi, (fam, stride)) in fams.iter().enumerate() {
        let opts = SweepOpts {
            threads: threads(),
            wall_limit_s: 120,
            on_stuck: generic_stuck(prop.clone(), fams.clone(), {
                let plans = plans.clone();
                let prop = prop.clone();
                std::sync::Arc::new(move |case: &Case| {
                    let mut acc = Acc::default();
                    match prop.as_str() {
                        "C10" => {
                            for plan in plans.iter() {
                                e2::check_c10_c11("C10", case, plan, (0, 0, 0), &mut acc);
                            }
                        }
                        "C13" => {
                            e2::check_c13_sync(case, None, if q { 2 } else { 3 }, true, (0, 0, 0), &mut acc);
                            e2::check_c13_sync(case, Some(Hint::All), 2, !q, (0, 0, 0), &mut acc);
                            let p = AsyncPlan { complete_cap: if q { 30 } else { 300 }, dev_bound: 1, dev_cap: if q { 30 } else { 300 }, ..plans[0].clone() };
                            e2::check_c13_async(case, &p, (0, 0, 0), &mut acc);
                        }
                        _ => {}
                    }
                })
            }),
            fam_no: fi,
            stride: *stride,
            offset: if *stride > 1 { ctx.seed % *stride } else { 0 },
        };
        let plans = &plans;
        let prop_s = prop.as_str();
        let acc = sweep(&**fam, &opts, &|idx, case, acc| {
            if !is_wellformed(case) {
                return;
            }
            acc.count("cases");
            match prop_s {
                "C10" | "C11" => {
                    for (pi, plan) in plans.iter().enumerate() {
                        e2::check_c10_c11(prop_s, case, plan, (fi, idx, pi as u32), acc);
                    }
                    if prop_s == "C11" && !case.u.unions.is_empty() {
                        crate::e4::check_c11_cache_union(case, (fi, idx, 99), acc);
                    }
                }
                "C12" => {
                    e2::check_c12_sync(case, None, (fi, idx, 0), acc);
                    e2::check_c12_sync(case, Some(Hint::All), (fi, idx, 1), acc);
                    let p = AsyncPlan { complete_cap: if q { 40 } else { 400 }, dev_bound: 1, dev_cap: if q { 40 } else { 400 }, ..plans[0].clone() };
                    e2::check_c12_async(case, &p, (fi, idx, 2), acc);
                }
                _ => {
                    e2::check_c13_sync(case, None, if q { 2 } else { 3 }, true, (fi, idx, 0), acc);
                    e2::check_c13_sync(case, Some(Hint::All), 2, !q, (fi, idx, 1), acc);
                    let p = AsyncPlan { complete_cap: if q { 30 } else { 300 }, dev_bound: 1, dev_cap: if q { 30 } else { 300 }, ..plans[0].clone() };
                    e2::check_c13_async(case, &p, (fi, idx, 2), acc);
                    // the same with a provider whose sort_candidates fetches dependencies through the cache
                    let p = AsyncPlan { sort_cb: SortCallback::DepsOfSorted, ..p };
                    e2::check_c13_async(case, &p, (fi, idx, 3), acc);
                }
            }
        });
        states += acc.get("cases");
        transitions += acc.evaluations;
        let name = format!("{}{}", fam.name(), if *stride > 1 { format!(" (every {stride}th index)") } else { String::new() });
        eprintln!("[{}] {}: {} cases, {} executions, {:.1}s", prop, name, acc.get("cases"), acc.evaluations, ctx.t0.elapsed().as_secs_f64());
        rep.push(&name, acc, *stride == 1, fam.len());
    }
    rep.extra.insert("states".into(), json!(states));
    rep.extra.insert("transitions".into(), json!(transitions));
    rep.extra.insert("traces_validated_against_impl".into(), json!(transitions));
    rep.extra.insert("plans".into(), json!(plans.iter().map(|p| format!("{p:?}")).collect::<Vec<_>>()));
    match prop.as_str() {
        "C10" => {
            let a = rep.counter("instances_with_2+_distinct_call_orders");
            let b = rep.counter("schedules");
            rep.require(a > 10 && b > 1000, "schedules never interleaved");
        }
        "C11" => {
            let a = rep.counter("quiescent_points_with_2+_pending_candidate_requests");
            rep.require(a > 10, "never two candidate requests in flight");
        }
        "C12" => {
            let a = rep.counter("cancellations_checked");
            let b = rep.counter("cancelled_while_requests_in_flight");
            rep.require(a > 1000 && b > 0, "cancellation points never reached / never with requests in flight");
        }
        _ => {
            let a = rep.counter("later_calls_served_entirely_from_cache");
            let b = rep.counter("histories_cancelled_with_requests_in_flight");
            rep.require(a > 0 && b > 0, "no history hit the cache / none cancelled with requests in flight");
        }
    }
    rep.finish(ctx)
}

fn f5k(q: bool) -> usize {
    std::env::var("VERIF_F5K").ok().and_then(|s| s.parse().ok()).unwrap_or(if q { 2 } else { 3 })
}

/// Prints the size of every E1 plan (cases x configurations) without running anything.
pub fn sizes() {
    for tier in [Tier::Quick, Tier::Thorough] {
        for prop in [P::C01, P::C02, P::C03, P::C04, P::C05, P::C07, P::C08, P::C09, P::C14] {
            let plan = e1_plan(prop, &tier);
            let mut total = 0u64;
            for it in &plan {
                let n = it.fam.len() / it.stride.max(1) * it.cfgs.len() as u64;
                total += n;
                println!("  {} {} {:>14} runs  {} x{} /{}", prop.id(), tier.as_str(), n, it.fam.name(), it.cfgs.len(), it.stride);
            }
            println!("{} {} total {} runs", prop.id(), tier.as_str(), total);
        }
    }
}

/// Debug aid: run the case of a replay file n times and report the slowest execution.
pub fn stress(path: &str, n: u64) {
    let text = std::fs::read_to_string(path).expect("read");
    let v: Value = serde_json::from_str(&text).expect("json");
    let r = &v["replay"];
    let case: Case = serde_json::from_value(r["case"].clone()).expect("case");
    let cfg: RunCfg = serde_json::from_value(r["cfg"].clone()).expect("cfg");
    let mut worst = std::time::Duration::ZERO;
    let mut outcomes = std::collections::BTreeMap::new();
    for _ in 0..n {
        let t = Instant::now();
        let res = run_case(&case.u, &case.p, &cfg);
        worst = worst.max(t.elapsed());
        *outcomes.entry(res.outcome.short()).or_insert(0u64) += 1;
    }
    println!("runs={n} slowest={worst:?} outcomes={outcomes:?}");
}
