//! E1: per-case oracles for the properties decided by exhaustive universe
//! enumeration (C01 C02 C03 C04 C05 C07 C08 C09 C14).

use std::collections::{BTreeMap, BTreeSet, HashMap};

use resolvo::{VerifClauseKind, VerifDump, VerifVar};
use serde_json::json;

use crate::oracle::*;
use crate::provider::*;
use crate::run::*;
use crate::sweep::{case_hash, Acc, Violation};
use crate::universe::*;

#[derive(Clone, Copy, Debug, PartialEq, Eq)]
pub enum P {
    C01,
    C02,
    C03,
    C04,
    C05,
    C07,
    C08,
    C09,
    C14,
}

impl P {
    pub fn id(&self) -> &'static str {
        match self {
            P::C01 => "C01",
            P::C02 => "C02",
            P::C03 => "C03",
            P::C04 => "C04",
            P::C05 => "C05",
            P::C07 => "C07",
            P::C08 => "C08",
            P::C09 => "C09",
            P::C14 => "C14",
        }
    }
    pub fn parse(s: &str) -> Option<P> {
        Some(match s {
            "C01" => P::C01,
            "C02" => P::C02,
            "C03" => P::C03,
            "C04" => P::C04,
            "C05" => P::C05,
            "C07" => P::C07,
            "C08" => P::C08,
            "C09" => P::C09,
            "C14" => P::C14,
            _ => return None,
        })
    }
    /// the run configuration flags this property needs
    pub fn shape(&self, mut cfg: RunCfg) -> RunCfg {
        match self {
            P::C03 | P::C04 => cfg.render = true,
            _ => {}
        }
        match self {
            P::C01 | P::C02 | P::C05 | P::C08 | P::C14 | P::C03 | P::C04 | P::C07 => cfg.dump = true,
            _ => {}
        }
        if let P::C09 = self {
            cfg.log = true;
            // "a provider that gives no availability hints": either the None variant or an empty list
            // (what the C++ bridge passes for a provider without hints); the plan chooses which
            if !matches!(&cfg.hint_override, Some(Hint::Some(v)) if v.is_empty()) {
                cfg.hint_override = Some(Hint::None);
            }
        }
        cfg
    }
}

pub fn mk_violation(
    prop: &str,
    signature: String,
    what: String,
    case: &Case,
    cfg: &RunCfg,
    observed: String,
    order: (usize, u64, u32),
) -> Violation {
    Violation {
        property: prop.to_string(),
        signature,
        what,
        replay: json!({
            "kind": "e1",
            "case": case,
            "cfg": cfg,
            "observed": observed,
            "universe": case.u.describe(&case.p),
        }),
        order,
    }
}

pub fn learnt_count(d: &Option<VerifDump>) -> usize {
    d.as_ref()
        .map(|d| {
            d.clauses
                .iter()
                .filter(|c| c.kind == VerifClauseKind::Learnt)
                .count()
        })
        .unwrap_or(0)
}

fn panic_sig(p: &PanicInfo) -> String {
    format!("panic:{}:{}:{}", p.stage, p.site, p.msg)
}

/// Structural invariant of the two-watched-literal scheme on the clause database a solve leaves
/// behind: every clause that has watches watches two of its own literals and sits exactly once in the
/// watch list of each of them; a watch list only contains clauses that watch its literal. A watch that
/// got lost (a clause unlinked from a list it still relies on) silently disables propagation of that
/// clause long before it shows in a result.
pub fn check_watches(d: &VerifDump) -> Result<(), (String, String)> {
    use std::collections::HashMap as Map;
    let lists: Map<(VerifVar, bool), &Vec<usize>> = d.watch_lists.iter().map(|(l, v)| (*l, v)).collect();
    for (i, w) in d.watched.iter().enumerate() {
        let Some([a, b]) = w else { continue };
        let lits = &d.clauses[i].literals;
        for l in [a, b] {
            if !lits.contains(l) {
                return Err(("watches:foreign-literal".into(), format!("clause {i} ({:?}) watches {l:?}, which is not one of its literals {lits:?}", d.clauses[i].kind)));
            }
            let n = lists.get(l).map_or(0, |v| v.iter().filter(|&&c| c == i).count());
            if n != 1 {
                return Err((
                    "watches:lost".into(),
                    format!("clause {i} ({:?} {lits:?}) watches {l:?} but occurs {n} times in that literal's watch list {:?}", d.clauses[i].kind, lists.get(l)),
                ));
            }
        }
        if a == b {
            return Err(("watches:same-literal-twice".into(), format!("clause {i} watches {a:?} twice")));
        }
    }
    for (l, list) in &d.watch_lists {
        for &c in list {
            let ok = d.watched.get(c).and_then(|w| w.as_ref()).map_or(false, |w| w[0] == *l || w[1] == *l);
            if !ok {
                return Err(("watches:stale-entry".into(), format!("the watch list of {l:?} contains clause {c}, which does not watch it")));
            }
        }
        if list.len() > d.clauses.len() {
            return Err(("watches:cyclic-list".into(), format!("the watch list of {l:?} does not end")));
        }
    }
    Ok(())
}

/// Decision levels never decrease along the trail (an entry pushed with a lower level than the entries
/// below it would survive a later `undo_until` of those entries).
pub fn check_trail_levels(d: &VerifDump) -> Result<(), (String, String)> {
    let mut last = 0u32;
    let mut seen: HashMap<VerifVar, bool> = HashMap::new();
    for (k, (v, b, level)) in d.trail.iter().enumerate() {
        if *level < last {
            return Err(("trail:levels-decrease".into(), format!("trail entry {k} ({v:?} = {b}) has level {level} below the level {last} of the entry before it")));
        }
        last = *level;
        if let Some(old) = seen.insert(*v, *b) {
            return Err(("trail:variable-twice".into(), format!("{v:?} is on the trail twice ({old} and {b})")));
        }
    }
    // every learnt clause records the clauses it was derived from, all of them older than itself
    for (i, c) in d.clauses.iter().enumerate() {
        if c.kind == VerifClauseKind::Learnt {
            if c.why.is_empty() {
                return Err(("learnt:no-antecedents".into(), format!("learnt clause {i} records no antecedent clauses")));
            }
            if let Some(w) = c.why.iter().find(|&&w| w >= i) {
                return Err(("learnt:antecedent-not-older".into(), format!("learnt clause {i} lists clause {w} as antecedent, which is not older than itself")));
            }
        }
    }
    Ok(())
}

/// Under the final trail of a successful solve no clause of the database may be falsified (every
/// literal assigned and false), helper variables included, and no variable may be on the trail twice.
pub fn check_fixpoint(d: &VerifDump) -> Result<(), (String, String)> {
    let mut val: HashMap<VerifVar, bool> = HashMap::new();
    for (v, b, _) in &d.trail {
        if let Some(old) = val.insert(*v, *b) {
            return Err(("trail:variable-twice".into(), format!("{v:?} is on the trail twice ({old} and {b})")));
        }
    }
    check_trail_levels(d)?;
    for (i, c) in d.clauses.iter().enumerate() {
        let mut satisfied = false;
        let mut unassigned = 0;
        for (v, want) in &c.literals {
            match val.get(v) {
                Some(b) if b == want => satisfied = true,
                Some(_) => {}
                None => unassigned += 1,
            }
        }
        if satisfied || c.literals.is_empty() {
            continue;
        }
        if unassigned == 0 {
            return Err(("fixpoint:clause-falsified".into(), format!("clause {i} ({:?} {:?}) is false under the final assignment of a successful solve", c.kind, c.literals)));
        }
        // (a clause that is unit with an unassigned last literal is NOT an error: clauses added lazily
        // while one of their literals is already false are only looked at again when the other watched
        // literal is assigned, which is enough for soundness; demanding eager propagation here was a
        // false alarm of a first version of this check)
        let _ = unassigned;
    }
    Ok(())
}

/// Evaluates property `prop` on one (case, cfg). `order` positions violations
/// deterministically (family no, index, cfg no).
pub fn check(prop: P, case: &Case, cfg: &RunCfg, order: (usize, u64, u32), acc: &mut Acc) {
    let cfg = prop.shape(cfg.clone());
    let sem = Sem::new(&case.u, &case.p);
    let mut res = run_case(&case.u, &case.p, &cfg);
    acc.evaluations += 1;
    if matches!(res.outcome, Outcome::Horizon) && crate::sweep::kill_requested() {
        // stopped by the wall-clock monitor: run it once more before calling it non-termination
        // (on a loaded machine a healthy execution can be descheduled for longer than the limit)
        crate::sweep::rearm();
        res = run_case(&case.u, &case.p, &cfg);
        acc.evaluations += 1;
        if matches!(res.outcome, Outcome::Horizon) {
            acc.count("wall_limit_hits_reproduced");
        } else {
            acc.count("wall_limit_hits_not_reproduced");
            crate::sweep::NOT_REPRODUCED.fetch_add(1, std::sync::atomic::Ordering::SeqCst);
        }
    }
    let nl = learnt_count(&res.dump);
    if nl >= 1 {
        acc.count("runs_with_learnt_clause");
    }
    if nl >= 2 {
        acc.count("runs_with_2+_learnt_clauses");
    }
    match &res.outcome {
        Outcome::Ok(_) => acc.count("result_ok"),
        Outcome::Unsat => acc.count("result_unsolvable"),
        Outcome::Cancelled(_) => acc.count("result_cancelled"),
        Outcome::Panic(_) => acc.count("result_panic"),
        Outcome::Deadlock => acc.count("result_deadlock"),
        Outcome::Horizon => acc.count("result_horizon"),
    }
    acc.sample(|| json!({"universe": case.u.describe(&case.p), "configuration": format!("{:?}", cfg.runtime), "hints": format!("{:?}/{:?}", cfg.hint_override, cfg.hint_mask), "result": res.outcome.short(), "learnt_clauses": nl}));
    let v = |sig: String, what: String, obs: String| {
        mk_violation(prop.id(), sig, what, case, &cfg, obs, order)
    };
    if matches!(prop, P::C01 | P::C02) {
        if let Some(d) = &res.dump {
            acc.count("watch_structures_checked");
            if let Err((sig, what)) = check_watches(d) {
                acc.violation(v(sig, what, res.outcome.short()));
            }
            if let Err((sig, what)) = check_trail_levels(d) {
                acc.violation(v(sig, what, res.outcome.short()));
            }
            if let Outcome::Ok(sol) = &res.outcome {
                let mut on_trail: Vec<Id> = d.trail.iter().filter_map(|(v, b, _)| match v {
                    VerifVar::Solvable(s) if *b => Some(s.0),
                    _ => None,
                }).collect();
                let mut sol2 = sol.clone();
                on_trail.sort();
                sol2.sort();
                if on_trail != sol2 {
                    acc.violation(v("trail:solution-mismatch".into(), format!("the returned solution {sol2:?} is not the set of solvables assigned true on the final trail {on_trail:?}"), res.outcome.short()));
                }
            }
            // (not with soft requirements: a directly named soft solvable is exempt from its package's lock
            // and exclusion list, so the Lock / Excluded clause added later for it is legitimately false)
            if matches!(res.outcome, Outcome::Ok(_)) && case.p.soft.is_empty() {
                if let Err((sig, what)) = check_fixpoint(d) {
                    acc.violation(v(sig, what, res.outcome.short()));
                }
            }
        }
    }
    match prop {
        P::C01 | P::C05 | P::C14 => {
            if let Outcome::Ok(sol) = &res.outcome {
                let sel = sem.sel_of(sol);
                if prop != P::C05 {
                    // duplicates in the vector
                    let mut sorted = sol.clone();
                    sorted.sort();
                    sorted.dedup();
                    if sorted.len() != sol.len() {
                        acc.violation(v(
                            "rule:duplicate".into(),
                            "solution lists a solvable twice".into(),
                            res.outcome.short(),
                        ));
                    }
                    if let Err(rule) = sem.check_valid(&sel, &case.p.soft) {
                        let soft_named = match &rule {
                            Rule::OnePerName(n) => case
                                .p
                                .soft
                                .iter()
                                .any(|&s| case.u.solvs[s as usize].name == *n && sel[s as usize]),
                            _ => false,
                        };
                        acc.violation(v(
                            format!(
                                "rule:{}{}",
                                rule.kind(),
                                if soft_named { ":soft-named" } else { "" }
                            ),
                            format!("returned solution violates {:?}", rule),
                            res.outcome.short(),
                        ));
                    }
                }
                if prop == P::C05 || prop == P::C14 {
                    let sup = sem.support(&sel, &case.p.soft);
                    let solset: BTreeSet<Id> = sol.iter().copied().collect();
                    if sup != solset {
                        let extra: Vec<String> = solset
                            .difference(&sup)
                            .map(|&s| case.u.solv_label(s))
                            .collect();
                        acc.violation(v(
                            "extraneous".into(),
                            format!("solution contains solvables nothing selected requires: {extra:?}"),
                            res.outcome.short(),
                        ));
                    }
                    if nl >= 1 {
                        acc.count("ok_after_backjump");
                    }
                }
                if sol.len() >= 2 {
                    acc.mark_nontrivial(case_hash(case));
                }
            }
            if prop == P::C14 {
                check_c14(case, &cfg, &sem, &res, order, acc);
                // the clause database must stay truthful with soft-named solvables too (at-most-one
                // encodings include solvables that no requirement revealed)
                if let Some(d) = &res.dump {
                    if let Err((sig, what)) = check_clauses(&sem, d, acc) {
                        acc.violation(v(format!("clauses:{sig}"), what, res.outcome.short()));
                    }
                }
            }
        }
        P::C02 => {
            let expect_sat = sem.sat();
            match &res.outcome {
                Outcome::Ok(_) if !expect_sat => acc.violation(v(
                    "verdict:ok-but-unsat".into(),
                    "solve returned a solution although no valid selection exists".into(),
                    res.outcome.short(),
                )),
                Outcome::Unsat if expect_sat => acc.violation(v(
                    "verdict:unsat-but-sat".into(),
                    "solve returned Unsolvable although a valid selection exists".into(),
                    res.outcome.short(),
                )),
                _ => {}
            }
            if matches!(res.outcome, Outcome::Unsat) || nl >= 1 {
                acc.mark_nontrivial(case_hash(case));
            }
            if matches!(res.outcome, Outcome::Ok(_)) && nl >= 1 {
                acc.count("sat_after_conflict");
            }
            if let Some(d) = &res.dump {
                if let Err((sig, what)) = check_clauses(&sem, d, acc) {
                    acc.violation(v(sig, what, res.outcome.short()));
                }
            }
        }
        P::C03 => {
            if let Outcome::Unsat = &res.outcome {
                match (&res.rendered.graph, &res.render_panic) {
                    (Some(g), _) => {
                        acc.count("graphs");
                        acc.mark_nontrivial(case_hash(case));
                        if nl >= 1 {
                            acc.count("graphs_after_learning");
                        }
                        for e in &g.edges {
                            acc.count(match e.2 {
                                GEdge::Requires(_) => "edge_requires",
                                GEdge::Constrains(_) => "edge_constrains",
                                GEdge::Locked(_) => "edge_locked",
                                GEdge::Forbid => "edge_forbid",
                                GEdge::Excluded => "edge_excluded",
                            });
                        }
                        if let Err((sig, what)) = check_graph(&sem, g, acc) {
                            acc.violation(v(
                                sig,
                                what,
                                serde_json::to_string(g).unwrap_or_default(),
                            ));
                        }
                        acc.sample(|| json!({"universe": case.u.describe(&case.p), "graph": g}));
                    }
                    (None, Some(p)) if p.stage == "graph" => {
                        // Conflict::graph asserts reachability itself: a failed assert there is a C03 matter too
                        if p.msg.contains("left == right") && p.site.contains("conflict.rs") {
                            acc.violation(v(
                                format!("graph-{}", panic_sig(p)),
                                "Conflict::graph failed its own reachability check".into(),
                                format!("{p:?}"),
                            ));
                        }
                    }
                    _ => {}
                }
            }
        }
        P::C04 => {
            acc.mark_nontrivial(case_hash(case));
            match &res.outcome {
                Outcome::Panic(p) => acc.violation(v(
                    panic_sig(p),
                    format!("solve panicked: {} at {}", p.msg, p.site),
                    res.outcome.short(),
                )),
                Outcome::Deadlock | Outcome::Horizon => acc.violation(v(
                    "nontermination".into(),
                    "solve did not terminate under the controlled executor".into(),
                    res.outcome.short(),
                )),
                Outcome::Cancelled(_) => acc.violation(v(
                    "spurious-cancel".into(),
                    "Cancelled without a cancellation request".into(),
                    res.outcome.short(),
                )),
                Outcome::Unsat => {
                    acc.count("conflicts_rendered");
                    if let Some(p) = &res.render_panic {
                        acc.violation(v(
                            panic_sig(p),
                            format!("conflict rendering ({}) panicked: {} at {}", p.stage, p.msg, p.site),
                            res.outcome.short(),
                        ));
                    }
                    if let Some(g) = &res.rendered.graph {
                        let bound = render_bound(g);
                        let cyclic = requires_cycle(g);
                        if cyclic {
                            acc.count("cyclic_conflict_graphs");
                        }
                        if res.rendered.message_overflow {
                            acc.violation(v(
                                format!("render-unbounded{}", if cyclic { ":requires-cycle" } else { "" }),
                                format!(
                                    "rendering exceeded the {} byte hard cap (graph: {} nodes, {} edges)",
                                    RENDER_CAP,
                                    g.nodes.len(),
                                    g.edges.len()
                                ),
                                serde_json::to_string(g).unwrap_or_default(),
                            ));
                        } else if let Some(m) = &res.rendered.message {
                            let lines = m.lines().count();
                            acc.max("max:message_lines", lines as u64);
                            if lines > bound {
                                acc.violation(v(
                                    "render-too-long".into(),
                                    format!("message has {lines} lines, bound from the graph is {bound}"),
                                    m.clone(),
                                ));
                            }
                        }
                    }
                }
                Outcome::Ok(_) => {}
            }
            acc.sample(|| json!({"universe": case.u.describe(&case.p), "result": res.outcome.short()}));
        }
        P::C07 => {
            if case.p.soft.is_empty() {
                if let Some(s) = sem.conflict_free(&[]) {
                    acc.count("premise_holds");
                    acc.mark_nontrivial(case_hash(case));
                    if case.u.names.iter().any(|n| {
                        n.favored.map_or(false, |f| case.u.solvs[f as usize].rank != 0)
                    }) {
                        acc.count("premise_with_favored_not_top");
                    }
                    if !case.u.unions.is_empty() {
                        acc.count("premise_with_unions");
                    }
                    match &res.outcome {
                        Outcome::Ok(sol) => {
                            let solset: BTreeSet<Id> = sol.iter().copied().collect();
                            if solset != s {
                                acc.violation(v(
                                    "not-first-choice".into(),
                                    format!(
                                        "preferred candidates are compatible {:?} but solve returned {:?}",
                                        s.iter().map(|&x| case.u.solv_label(x)).collect::<Vec<_>>(),
                                        sol.iter().map(|&x| case.u.solv_label(x)).collect::<Vec<_>>()
                                    ),
                                    res.outcome.short(),
                                ));
                            }
                        }
                        Outcome::Unsat => acc.violation(v(
                            "unsat-on-conflict-free".into(),
                            "Unsolvable although the preferred candidates form a valid selection".into(),
                            res.outcome.short(),
                        )),
                        _ => {}
                    }
                    acc.sample(|| json!({"universe": case.u.describe(&case.p), "expected": s.iter().map(|&x| case.u.solv_label(x)).collect::<Vec<_>>()}));
                }
            }
        }
        P::C08 => {
            if case.p.soft.is_empty() && case.p.reqs.iter().all(|r| matches!(r, Req::Single(_))) {
                let firsts: Option<Vec<Id>> = case.p.reqs.iter().map(|&r| sem.first(r)).collect();
                if let Some(mut f) = firsts {
                    f.sort();
                    f.dedup();
                    if !f.is_empty() && sem.sat_with(&f) {
                        acc.count("premise_holds");
                        acc.mark_nontrivial(case_hash(case));
                        let greedy_ok = sem.conflict_free(&[]).is_some();
                        if !greedy_ok && nl >= 1 {
                            acc.count("premise_survived_backjump");
                        }
                        match &res.outcome {
                            Outcome::Ok(sol) => {
                                let missing: Vec<String> = f
                                    .iter()
                                    .filter(|x| !sol.contains(x))
                                    .map(|&x| case.u.solv_label(x))
                                    .collect();
                                if !missing.is_empty() {
                                    acc.violation(v(
                                        "direct-downgraded".into(),
                                        format!("a solution with the best candidates of all direct requirements exists, but {missing:?} not selected"),
                                        res.outcome.short(),
                                    ));
                                }
                            }
                            Outcome::Unsat => acc.violation(v(
                                "unsat-but-sat".into(),
                                "Unsolvable although a solution exists".into(),
                                res.outcome.short(),
                            )),
                            _ => {}
                        }
                    }
                }
            }
        }
        P::C09 => check_c09(case, &cfg, &sem, &res, order, acc),
    }
}

// ---------------------------------------------------------------------------
// C02 clause-level certification (hook)
// ---------------------------------------------------------------------------

fn var_solv(v: &VerifVar) -> Option<Id> {
    match v {
        VerifVar::Solvable(s) => Some(s.0),
        _ => None,
    }
}

/// (i) every problem clause is a consequence of the reference encoding of the
/// provider data, (ii) the forbid clauses of a package are exactly an
/// at-most-one over the candidates they mention, (iii) every learnt clause is
/// implied (checked on every total assignment) by the problem clauses emitted
/// before it.
pub fn check_clauses(sem: &Sem, d: &VerifDump, acc: &mut Acc) -> Result<(), (String, String)> {
    let u = sem.u;
    // (i)
    for (ci, c) in d.clauses.iter().enumerate() {
        let bad = |why: &str| -> Result<(), (String, String)> {
            Err((
                format!("clause-untrue:{:?}", c.kind),
                format!("clause #{ci} {:?} {:?} is not implied by the provider data: {why}", c.kind, c.literals),
            ))
        };
        match c.kind {
            VerifClauseKind::InstallRoot => {
                if c.literals != vec![(VerifVar::Root, true)] {
                    return bad("shape");
                }
            }
            VerifClauseKind::Requires => {
                let (parent, pv) = c.literals[0];
                if pv {
                    return bad("parent literal must be negative");
                }
                let reqs: &[Req] = match parent {
                    VerifVar::Root => &sem.p.reqs,
                    VerifVar::Solvable(s) => u.solvs[s.0 as usize].deps.reqs(),
                    _ => return bad("parent is a helper"),
                };
                let targets: BTreeSet<Id> = c.literals[1..]
                    .iter()
                    .map(|l| if l.1 { var_solv(&l.0) } else { None })
                    .collect::<Option<_>>()
                    .ok_or_else(|| bad("non-positive candidate literal").unwrap_err())?;
                // some requirement of the parent must have exactly these candidates
                if !reqs
                    .iter()
                    .any(|&r| sem.req_cands(r).into_iter().collect::<BTreeSet<_>>() == targets)
                {
                    return bad("no requirement of the parent has exactly these candidates");
                }
            }
            VerifClauseKind::Constrains => {
                let (parent, pv) = c.literals[0];
                let (other, ov) = c.literals[1];
                if pv || ov {
                    return bad("literals must be negative");
                }
                let cons: &[Id] = match parent {
                    VerifVar::Root => &sem.p.cons,
                    VerifVar::Solvable(s) => u.solvs[s.0 as usize].deps.cons(),
                    _ => return bad("parent is a helper"),
                };
                let Some(o) = var_solv(&other) else {
                    return bad("target is not a solvable");
                };
                if !cons.iter().any(|&vs| sem.non_matching(vs).contains(&o)) {
                    return bad("target matches every constrains of the parent");
                }
            }
            VerifClauseKind::Lock => {
                // literals: (other, false), (root, false)
                let others: Vec<Id> = c.literals.iter().filter_map(|l| var_solv(&l.0)).collect();
                if others.len() != 1
                    || c.literals.iter().any(|l| l.1)
                    || !c.literals.iter().any(|l| l.0 == VerifVar::Root)
                {
                    return bad("shape");
                }
                if !sem.is_locked_out(others[0]) || !sem.is_listed(others[0]) {
                    return bad("target is not locked out");
                }
            }
            VerifClauseKind::Excluded => {
                let (s, pv) = c.literals[0];
                let Some(s) = var_solv(&s) else {
                    return bad("not a solvable");
                };
                if pv || c.literals.len() != 1 {
                    return bad("shape");
                }
                if !sem.is_excluded(s) && !matches!(u.solvs[s as usize].deps, Deps::Unknown(_)) {
                    return bad("solvable is neither excluded nor has unknown dependencies");
                }
            }
            VerifClauseKind::ForbidMultiple | VerifClauseKind::Learnt => {}
        }
    }
    // (ii) at-most-one per package
    let mut pattern: BTreeMap<Id, BTreeMap<Id, BTreeMap<u32, BTreeSet<bool>>>> = BTreeMap::new();
    for c in &d.clauses {
        if c.kind != VerifClauseKind::ForbidMultiple {
            continue;
        }
        let (a, av) = c.literals[0];
        let (h, hv) = c.literals[1];
        let (Some(s), VerifVar::Helper(n, hid)) = (var_solv(&a), h) else {
            return Err(("forbid-shape".into(), format!("forbid clause with unexpected literals {:?}", c.literals)));
        };
        if av || u.solvs[s as usize].name != n.0 {
            return Err(("forbid-shape".into(), format!("forbid clause {:?} joins different packages", c.literals)));
        }
        pattern.entry(n.0).or_default().entry(s).or_default().entry(hid).or_default().insert(hv);
    }
    for (n, per) in &pattern {
        for (s, bits) in per {
            if bits.values().any(|v| v.len() > 1) {
                return Err((
                    "forbid-unsound".into(),
                    format!("candidate {} of {} can never be selected: contradictory helper pattern", u.solv_label(*s), u.names[*n as usize].label),
                ));
            }
        }
        let keys: Vec<&Id> = per.keys().collect();
        for i in 0..keys.len() {
            for j in i + 1..keys.len() {
                let (a, b) = (&per[keys[i]], &per[keys[j]]);
                let conflict = a.iter().any(|(h, va)| b.get(h).map_or(false, |vb| va != vb));
                if !conflict {
                    return Err((
                        "forbid-incomplete".into(),
                        format!(
                            "{} and {} can be selected together: helper patterns do not differ",
                            u.solv_label(*keys[i]),
                            u.solv_label(*keys[j])
                        ),
                    ));
                }
            }
        }
    }
    // (iii) learnt clauses
    let n_learnt = d.clauses.iter().filter(|c| c.kind == VerifClauseKind::Learnt).count();
    if n_learnt == 0 {
        return Ok(());
    }
    let mut vars: HashMap<VerifVar, u32> = HashMap::new();
    for c in &d.clauses {
        for l in &c.literals {
            let n = vars.len() as u32;
            vars.entry(l.0).or_insert(n);
        }
    }
    if vars.len() > 18 {
        acc.count("learnt_certification_skipped_too_many_vars");
        return Ok(());
    }
    let masks: Vec<(u32, u32)> = d
        .clauses
        .iter()
        .map(|c| {
            let mut pos = 0u32;
            let mut neg = 0u32;
            for l in &c.literals {
                if l.1 {
                    pos |= 1 << vars[&l.0]
                } else {
                    neg |= 1 << vars[&l.0]
                }
            }
            (pos, neg)
        })
        .collect();
    for (ci, c) in d.clauses.iter().enumerate() {
        if c.kind != VerifClauseKind::Learnt {
            continue;
        }
        acc.count("learnt_clauses_certified");
        let (lp, ln) = masks[ci];
        let premises: Vec<(u32, u32)> = (0..ci)
            .filter(|&j| d.clauses[j].kind != VerifClauseKind::Learnt)
            .map(|j| masks[j])
            .collect();
        for a in 0u32..(1u32 << vars.len()) {
            if (a & lp) | (!a & ln) != 0 {
                continue;
            }
            if premises.iter().all(|&(p, n)| (a & p) | (!a & n) != 0) {
                return Err((
                    "learnt-unsound".into(),
                    format!(
                        "learnt clause #{ci} {:?} is not implied by the {} problem clauses emitted before it",
                        c.literals,
                        premises.len()
                    ),
                ));
            }
        }
        // its recorded antecedents must exist and precede it
        if c.why.is_empty() || c.why.iter().any(|&w| w >= ci) {
            return Err((
                "learnt-why".into(),
                format!("learnt clause #{ci} has no / a forward antecedent list {:?}", c.why),
            ));
        }
    }
    Ok(())
}

// ---------------------------------------------------------------------------
// C03 graph oracle
// ---------------------------------------------------------------------------

pub fn requires_cycle(g: &Graph) -> bool {
    // DFS on requires edges only
    let n = g.nodes.len();
    let mut adj = vec![vec![]; n];
    for e in &g.edges {
        if matches!(e.2, GEdge::Requires(_)) {
            adj[e.0].push(e.1);
        }
    }
    let mut color = vec![0u8; n];
    fn dfs(v: usize, adj: &[Vec<usize>], color: &mut [u8]) -> bool {
        color[v] = 1;
        for &w in &adj[v] {
            if color[w] == 1 || (color[w] == 0 && dfs(w, adj, color)) {
                return true;
            }
        }
        color[v] = 2;
        false
    }
    (0..n).any(|v| color[v] == 0 && dfs(v, &adj, &mut color))
}

/// Upper bound on the number of message lines as a function of the graph only:
/// every printed line belongs to a simple path from the root (tree unfolding
/// with cycles cut), so lines <= header + sum over simple requires-paths P
/// ending in v of (1 + #requirement groups of v + #constrains edges of v).
pub fn render_bound(g: &Graph) -> usize {
    let n = g.nodes.len();
    let mut groups: Vec<BTreeMap<Req, Vec<usize>>> = vec![BTreeMap::new(); n];
    let mut cons = vec![0usize; n];
    for e in &g.edges {
        match &e.2 {
            GEdge::Requires(r) => groups[e.0].entry(*r).or_default().push(e.1),
            GEdge::Constrains(_) => cons[e.0] += 1,
            _ => {}
        }
    }
    fn walk(
        v: usize,
        groups: &[BTreeMap<Req, Vec<usize>>],
        cons: &[usize],
        on_path: &mut Vec<bool>,
        budget: &mut usize,
    ) -> usize {
        if *budget == 0 {
            return 0;
        }
        *budget -= 1;
        let mut lines = 1 + groups[v].len() + cons[v];
        on_path[v] = true;
        for ts in groups[v].values() {
            for &t in ts {
                if !on_path[t] {
                    lines += walk(t, groups, cons, on_path, budget);
                }
            }
        }
        on_path[v] = false;
        lines
    }
    let mut on_path = vec![false; n];
    let mut budget = 200_000usize;
    let root_conflicts = g.edges.iter().filter(|e| e.0 == g.root && !matches!(e.2, GEdge::Requires(_))).count();
    // fmt_graph is invoked at most twice (missing / conflicting top-level edges)
    2 * walk(g.root, &groups, &cons, &mut on_path, &mut budget) + 2 + root_conflicts
}

pub fn check_graph(sem: &Sem, g: &Graph, acc: &mut Acc) -> Result<(), (String, String)> {
    let u = sem.u;
    let bad = |sig: &str, what: String| -> Result<(), (String, String)> { Err((format!("graph:{sig}"), what)) };
    if g.nodes.get(g.root) != Some(&GNode::Root) {
        return bad("root", "root_node is not the root".into());
    }
    // (1) edge truthfulness
    let mut groups: BTreeMap<(usize, Req), BTreeSet<usize>> = BTreeMap::new();
    for (ei, (s, t, w)) in g.edges.iter().enumerate() {
        let src = &g.nodes[*s];
        let dst = &g.nodes[*t];
        match w {
            GEdge::Requires(r) => {
                let reqs: &[Req] = match src {
                    GNode::Root => &sem.p.reqs,
                    GNode::Solv(x) => u.solvs[*x as usize].deps.reqs(),
                    _ => return bad("requires-source", format!("edge {ei}: requires edge from {src:?}")),
                };
                if !reqs.contains(r) {
                    return bad(
                        "requires-not-owned",
                        format!("edge {ei}: requirement {} does not belong to {src:?}", u.req_label(*r)),
                    );
                }
                groups.entry((*s, *r)).or_default().insert(*t);
            }
            GEdge::Constrains(vs) => {
                let cons: &[Id] = match src {
                    GNode::Root => &sem.p.cons,
                    GNode::Solv(x) => u.solvs[*x as usize].deps.cons(),
                    _ => return bad("constrains-source", format!("edge {ei}: constrains edge from {src:?}")),
                };
                let GNode::Solv(t) = dst else {
                    return bad("constrains-target", format!("edge {ei}: constrains edge to {dst:?}"));
                };
                if !cons.contains(vs) {
                    return bad("constrains-not-owned", format!("edge {ei}: constrains {vs} does not belong to {src:?}"));
                }
                if !sem.non_matching(*vs).contains(t) {
                    return bad(
                        "constrains-target-matches",
                        format!("edge {ei}: {} is not a non-matching candidate of {}", u.solv_label(*t), u.req_label(Req::Single(*vs))),
                    );
                }
            }
            GEdge::Locked(l) => {
                let GNode::Solv(t) = dst else {
                    return bad("locked-target", format!("edge {ei}: lock edge to {dst:?}"));
                };
                if *src != GNode::Root
                    || u.names[u.solvs[*t as usize].name as usize].locked != Some(*l)
                    || t == l
                    || !sem.is_listed(*t)
                {
                    return bad("locked-untrue", format!("edge {ei}: {} is not locked out by {}", u.solv_label(*t), u.solv_label(*l)));
                }
            }
            GEdge::Excluded => {
                let (GNode::Solv(x), GNode::Excluded(reason)) = (src, dst) else {
                    return bad("excluded-shape", format!("edge {ei}: excluded edge {src:?} -> {dst:?}"));
                };
                let n = &u.names[u.solvs[*x as usize].name as usize];
                let listed = n.excluded.iter().any(|e| e.0 == *x && e.1 == *reason);
                let unknown = u.solvs[*x as usize].deps == Deps::Unknown(*reason);
                if !listed && !unknown {
                    return bad("excluded-untrue", format!("edge {ei}: {} is not excluded for reason {reason}", u.solv_label(*x)));
                }
            }
            GEdge::Forbid => {
                let (GNode::Solv(a), GNode::Solv(b)) = (src, dst) else {
                    return bad("forbid-shape", format!("edge {ei}: forbid edge {src:?} -> {dst:?}"));
                };
                // the property only demands that both ends belong to one package
                // (a self-loop is what Conflict::graph draws for a solvable with two helper clauses)
                if u.solvs[*a as usize].name != u.solvs[*b as usize].name {
                    return bad("forbid-untrue", format!("edge {ei}: forbid edge joins {} and {}", u.solv_label(*a), u.solv_label(*b)));
                }
            }
        }
    }
    for ((s, r), targets) in &groups {
        let cands: BTreeSet<Id> = sem.req_cands(*r).into_iter().collect();
        let tnodes: BTreeSet<GNode> = targets.iter().map(|&t| g.nodes[t].clone()).collect();
        let expect: BTreeSet<GNode> = if cands.is_empty() {
            [GNode::Unresolved].into_iter().collect()
        } else {
            cands.iter().map(|&c| GNode::Solv(c)).collect()
        };
        if tnodes != expect {
            return bad(
                "requires-targets",
                format!(
                    "requires edges of {:?} for {} point at {:?}, the requirement's candidates are {:?}",
                    g.nodes[*s],
                    u.req_label(*r),
                    tnodes,
                    expect
                ),
            );
        }
    }
    // (2) reachability
    let n = g.nodes.len();
    let mut seen = vec![false; n];
    let mut stack = vec![g.root];
    seen[g.root] = true;
    while let Some(v) = stack.pop() {
        for e in &g.edges {
            if e.0 == v && !seen[e.1] {
                seen[e.1] = true;
                stack.push(e.1);
            }
        }
    }
    if let Some(i) = seen.iter().position(|s| !s) {
        return bad("unreachable", format!("node {:?} is not reachable from the root", g.nodes[i]));
    }
    // (3) the graph's own facts admit no selection that installs the root
    let solv_nodes: Vec<usize> = (0..n).filter(|&i| matches!(g.nodes[i], GNode::Solv(_))).collect();
    if solv_nodes.len() > 20 {
        acc.count("graph_proof_check_skipped_too_large");
        return Ok(());
    }
    let pos: HashMap<usize, usize> = solv_nodes.iter().enumerate().map(|(i, &nx)| (nx, i)).collect();
    // forbid-touched nodes grouped by name
    let mut forbid_by_name: BTreeMap<Id, BTreeSet<usize>> = BTreeMap::new();
    for e in &g.edges {
        if e.2 == GEdge::Forbid {
            for nx in [e.0, e.1] {
                if let GNode::Solv(s) = g.nodes[nx] {
                    forbid_by_name.entry(u.solvs[s as usize].name).or_default().insert(pos[&nx]);
                }
            }
        }
    }
    let amo: Vec<u32> = forbid_by_name
        .values()
        .map(|s| s.iter().fold(0u32, |m, &i| m | (1 << i)))
        .collect();
    // requires groups as (source bit or root, target mask)
    let req_groups: Vec<(Option<usize>, u32)> = groups
        .iter()
        .map(|((s, _), ts)| {
            let src = pos.get(s).copied();
            let mask = ts.iter().filter_map(|t| pos.get(t)).fold(0u32, |m, &i| m | (1 << i));
            (src, mask)
        })
        .collect();
    let mut negs: Vec<(Option<usize>, usize)> = vec![]; // (source or root) -> target must be out
    let mut never: u32 = 0;
    for e in &g.edges {
        match e.2 {
            GEdge::Constrains(_) => negs.push((pos.get(&e.0).copied(), pos[&e.1])),
            GEdge::Locked(_) => never |= 1 << pos[&e.1],
            GEdge::Excluded => never |= 1 << pos[&e.0],
            _ => {}
        }
    }
    'outer: for t in 0u32..(1u32 << solv_nodes.len()) {
        if t & never != 0 {
            continue;
        }
        for &m in &amo {
            if (t & m).count_ones() > 1 {
                continue 'outer;
            }
        }
        for &(src, mask) in &req_groups {
            let active = src.map_or(true, |i| t & (1 << i) != 0);
            if active && t & mask == 0 {
                continue 'outer;
            }
        }
        for &(src, tgt) in &negs {
            let active = src.map_or(true, |i| t & (1 << i) != 0);
            if active && t & (1 << tgt) != 0 {
                continue 'outer;
            }
        }
        let chosen: Vec<String> = solv_nodes
            .iter()
            .enumerate()
            .filter(|(i, _)| t & (1 << i) != 0)
            .map(|(_, &nx)| match g.nodes[nx] {
                GNode::Solv(s) => u.solv_label(s),
                _ => unreachable!(),
            })
            .collect();
        return bad(
            "not-a-proof",
            format!("the facts shown in the graph are satisfiable: selecting {chosen:?} installs the root"),
        );
    }
    Ok(())
}

// ---------------------------------------------------------------------------
// C09 call-log oracle
// ---------------------------------------------------------------------------

fn check_c09(case: &Case, cfg: &RunCfg, sem: &Sem, res: &RunResult, order: (usize, u64, u32), acc: &mut Acc) {
    let u = &case.u;
    let v = |sig: &str, what: String| mk_violation("C09", sig.to_string(), what, case, cfg, format!("{:?}", res.log), order);
    if matches!(res.outcome, Outcome::Panic(_)) {
        return;
    }
    let mut delivered: Vec<Req> = case.p.reqs.clone();
    let mut names: BTreeSet<Id> = sem.mentioned_names(&case.p.reqs, &case.p.cons);
    let mut deps_calls: Vec<Id> = vec![];
    let mut cand_calls: Vec<Id> = vec![];
    for e in &res.log {
        match e {
            Ev::Deps(s) => {
                if deps_calls.contains(s) {
                    acc.violation(v("deps-twice", format!("get_dependencies({}) called twice", u.solv_label(*s))));
                }
                deps_calls.push(*s);
                let caused = case.p.soft.contains(s)
                    || delivered.iter().any(|&r| sem.req_cands(r).contains(s));
                if !caused {
                    acc.violation(v(
                        "deps-uncaused",
                        format!("get_dependencies({}) although no requirement obtained so far has it as a candidate", u.solv_label(*s)),
                    ));
                }
            }
            Ev::DepsEnd(s) => {
                let d = &u.solvs[*s as usize].deps;
                delivered.extend_from_slice(d.reqs());
                names.extend(sem.mentioned_names(d.reqs(), d.cons()));
            }
            Ev::Cands(n) => {
                if cand_calls.contains(n) {
                    acc.violation(v("cands-twice", format!("get_candidates({}) called twice", u.names[*n as usize].label)));
                }
                cand_calls.push(*n);
                if !names.contains(n) {
                    acc.violation(v(
                        "cands-uncaused",
                        format!("get_candidates({}) although nothing obtained so far mentions it", u.names[*n as usize].label),
                    ));
                }
            }
            _ => {}
        }
    }
    // laziness observable: some listed candidate of a fetched package was never fetched
    let unfetched = cand_calls.iter().any(|&n| sem.cands(n).iter().any(|c| !deps_calls.contains(c)));
    if unfetched {
        acc.count("runs_with_unfetched_candidate");
        acc.mark_nontrivial(case_hash(case));
    }
    if case.p.soft.is_empty() {
        if let Some(s) = sem.conflict_free(&[]) {
            acc.count("conflict_free");
            let got: BTreeSet<Id> = deps_calls.iter().copied().collect();
            if got != s {
                acc.violation(v(
                    "deps-not-exactly-solution",
                    format!(
                        "conflict-free problem: dependencies fetched for {:?}, solution is {:?}",
                        got.iter().map(|&x| u.solv_label(x)).collect::<Vec<_>>(),
                        s.iter().map(|&x| u.solv_label(x)).collect::<Vec<_>>()
                    ),
                ));
            }
            let mut want = sem.mentioned_names(&case.p.reqs, &case.p.cons);
            for &x in &s {
                let d = &u.solvs[x as usize].deps;
                want.extend(sem.mentioned_names(d.reqs(), d.cons()));
            }
            let gotn: BTreeSet<Id> = cand_calls.iter().copied().collect();
            if gotn != want {
                acc.violation(v(
                    "cands-not-exactly-mentioned",
                    format!("conflict-free problem: candidates fetched for {gotn:?}, mentioned names are {want:?}"),
                ));
            }
        }
    }
    // "each at most once per solver": a second solve of the same problem on the same solver must be
    // served from the cache entirely
    {
        let mut session = Session::new(&case.u, cfg);
        let first = session.solve(&case.p, CancelPlan::Never, vec![]);
        if !matches!(first.outcome, Outcome::Panic(_)) {
            let second = session.solve(&case.p, CancelPlan::Never, vec![]);
            acc.evaluations += 2;
            // (a second solve may take another path and fetch metadata the first one never asked for;
            // what it must not do is repeat a request)
            let asked: Vec<&Ev> = first.log.iter().filter(|e| matches!(e, Ev::Deps(_) | Ev::Cands(_))).collect();
            if let Some(e) = second.log.iter().find(|e| matches!(e, Ev::Deps(_) | Ev::Cands(_)) && asked.contains(e)) {
                acc.violation(v(
                    "refetch-on-second-solve",
                    format!("a second solve of the same problem on the same solver repeated a provider request: {e:?}"),
                ));
            } else if second.log.iter().all(|e| !matches!(e, Ev::Deps(_) | Ev::Cands(_))) {
                acc.count("second_solves_served_from_cache");
            }
        }
    }
    acc.sample(|| json!({"universe": u.describe(&case.p), "calls": format!("{:?}", res.log.iter().filter(|e| matches!(e, Ev::Deps(_) | Ev::Cands(_))).collect::<Vec<_>>())}));
}

// ---------------------------------------------------------------------------
// C14 soft requirements
// ---------------------------------------------------------------------------

fn check_c14(case: &Case, cfg: &RunCfg, sem: &Sem, res: &RunResult, order: (usize, u64, u32), acc: &mut Acc) {
    let u = &case.u;
    let v = |sig: &str, what: String| mk_violation("C14", sig.to_string(), what, case, cfg, res.outcome.short(), order);
    if case.p.soft.is_empty() {
        return;
    }
    let hard_sat = sem.sat();
    match &res.outcome {
        Outcome::Unsat if hard_sat => acc.violation(v(
            "soft-made-unsat",
            "hard problem is solvable but solve with soft requirements returned Unsolvable".into(),
        )),
        Outcome::Ok(_) if !hard_sat => acc.violation(v(
            "soft-made-sat",
            "hard problem is unsolvable but solve with soft requirements returned a solution".into(),
        )),
        // "adding soft requirements never turns a solvable problem into an error": a panic is one
        Outcome::Panic(p) if hard_sat => acc.violation(v(
            &format!("soft-made-panic:{}", p.site),
            format!("hard problem is solvable but solve with soft requirements panicked at {}: {}", p.site, p.msg),
        )),
        _ => {}
    }
    if let Outcome::Ok(sol) = &res.outcome {
        for &x in &case.p.soft {
            if sol.contains(&x) {
                acc.count("soft_accepted");
            } else {
                acc.count("soft_rejected");
            }
        }
        // inclusion: conflict-free hard solution S, and the first-choice closure with x as an
        // additional root is conflict-free too and contains S: then x must be in the solution.
        // Evaluated for the first soft solvable only (later ones depend on earlier acceptances).
        let x = case.p.soft[0];
        if let Some(s) = sem.conflict_free(&[]) {
            if let Some(sx) = sem.conflict_free(&[x]) {
                // x must be admissible on its own terms (not exempt from anything here: be conservative)
                let admissible = !sem.is_excluded(x) && !sem.is_locked_out(x) && sem.is_listed(x);
                if admissible && s.is_subset(&sx) {
                    acc.count("inclusion_premise_holds");
                    if !sol.contains(&x) {
                        acc.violation(v(
                            "soft-not-included",
                            format!(
                                "soft {} is compatible with the conflict-free hard solution but was not included",
                                u.solv_label(x)
                            ),
                        ));
                    }
                }
            }
        }
        // inclusion for the later soft solvables, in a form that does not depend on which earlier ones
        // were accepted: x (not named twice) adds E = closure(x) \ S to the conflict-free hard solution S,
        // and no package of E is reachable - through any candidate's requirements or constrains - from
        // the root or from any *other* soft solvable, nor does any member of E constrain anything: then
        // nothing decided before x's turn can stand in its way and x must be in the solution.
        if let Some(s) = sem.conflict_free(&[]) {
            let reach = |starts: &[Id], start_names: &[Id]| -> BTreeSet<Id> {
                let mut names: BTreeSet<Id> = start_names.iter().copied().collect();
                let mut todo: Vec<Id> = starts.to_vec();
                for &n in start_names {
                    todo.extend(u.solvs.iter().enumerate().filter(|(_, sv)| sv.name == n).map(|(i, _)| i as Id));
                }
                let mut seen: BTreeSet<Id> = BTreeSet::new();
                while let Some(y) = todo.pop() {
                    if !seen.insert(y) {
                        continue;
                    }
                    let d = &u.solvs[y as usize].deps;
                    for n in sem.mentioned_names(d.reqs(), d.cons()) {
                        if names.insert(n) {
                            todo.extend(u.solvs.iter().enumerate().filter(|(_, sv)| sv.name == n).map(|(i, _)| i as Id));
                        }
                    }
                }
                names
            };
            let root_names: Vec<Id> = sem.mentioned_names(&case.p.reqs, &case.p.cons).into_iter().collect();
            let from_root = reach(&[], &root_names);
            for (i, &x) in case.p.soft.iter().enumerate().skip(1) {
                if case.p.soft.iter().filter(|&&y| y == x).count() != 1 {
                    continue;
                }
                let Some(sx) = sem.conflict_free(&[x]) else { continue };
                if !(s.is_subset(&sx) && !sem.is_excluded(x) && !sem.is_locked_out(x) && sem.is_listed(x)) {
                    continue;
                }
                let e: Vec<Id> = sx.difference(&s).copied().collect();
                let e_names: BTreeSet<Id> = e.iter().map(|&y| u.solvs[y as usize].name).collect();
                if e.iter().any(|&y| !u.solvs[y as usize].deps.cons().is_empty() || matches!(u.solvs[y as usize].deps, Deps::Unknown(_))) {
                    continue;
                }
                if e_names.iter().any(|n| from_root.contains(n) || u.names[*n as usize].locked.is_some() || !u.names[*n as usize].excluded.is_empty()) {
                    continue;
                }
                let mut independent = true;
                for (j, &y) in case.p.soft.iter().enumerate() {
                    if j != i {
                        let r = reach(&[y], &[u.solvs[y as usize].name]);
                        if e_names.iter().any(|n| r.contains(n)) {
                            independent = false;
                            break;
                        }
                    }
                }
                if independent {
                    acc.count("inclusion_premise_holds_later_soft");
                    if !sol.contains(&x) {
                        acc.violation(v(
                            "soft-not-included:independent-later",
                            format!(
                                "soft {} (position {i}) touches no package that the root or any other soft requirement can reach and is compatible with the conflict-free hard solution, but was not included",
                                u.solv_label(x)
                            ),
                        ));
                    }
                }
            }
        }
        // a soft solvable for which hard ∧ x has no model at all must be absent
        for &x in &case.p.soft {
            // (with the documented exemption for every directly named soft solvable: an earlier accepted
            // soft solvable that is, say, locked out may legitimately be what x's requirement is met by)
            let exempt_ok = sem.sat_with(&[x]) || sem.sat_with_exempt(&[x], &case.p.soft);
            if !exempt_ok && sol.contains(&x) && sem.is_listed(x) && !sem.is_excluded(x) && !sem.is_locked_out(x) {
                acc.violation(v(
                    "soft-impossible-included",
                    format!("soft {} cannot be installed with the hard requirements but is in the solution", u.solv_label(x)),
                ));
            }
        }
        acc.mark_nontrivial(case_hash(case));
        acc.sample(|| json!({"universe": u.describe(&case.p), "result": res.outcome.short()}));
    }
}
