//! E4: breadth-first exploration of operation sequences on real objects
//! against boring reference models: C19 (Mapping), C18 (Pool), C20 (SolverCache).
//! A state is the history that reaches it; `build(history)` replays it on a
//! fresh real object; canonical forms are hashed for dedup.

use std::collections::{BTreeMap, BTreeSet, HashMap, HashSet};

use futures::FutureExt;
use resolvo::{
    utils::{Pool, VersionSet},
    Mapping, NameId, SolvableId, SolverCache, StringId, VersionSetId, VersionSetUnionId,
};
use serde_json::json;

use crate::families::*;
use crate::oracle::Sem;
use crate::provider::*;
use crate::report::{Ctx, Report, Tier};
use crate::run::*;
use crate::sweep::*;
use crate::universe::*;

fn viol(prop: &str, sig: &str, what: String, replay: serde_json::Value, order: (usize, u64, u32)) -> Violation {
    Violation {
        property: prop.to_string(),
        signature: sig.to_string(),
        what,
        replay,
        order,
    }
}

// ===========================================================================
// C19: Mapping
// ===========================================================================

#[derive(Clone, Copy, Debug, PartialEq, Eq, Hash, serde::Serialize, serde::Deserialize)]
pub enum MOp {
    Insert(u32),
    Unset(u32),
}

#[derive(Clone, Copy, Debug, PartialEq, Eq, Hash, serde::Serialize, serde::Deserialize)]
pub enum MStart {
    Default,
    Cap1,
    Cap200,
}

pub const M_IDS: [u32; 8] = [0, 1, 2, 5, 127, 128, 129, 300];

fn m_new(start: MStart) -> Mapping<NameId, u32> {
    match start {
        MStart::Default => Mapping::default(),
        MStart::Cap1 => Mapping::with_capacity(1),
        MStart::Cap200 => Mapping::with_capacity(200),
    }
}

/// Replays a history on a fresh Mapping and a BTreeMap, compares every observation
/// after the last operation. Returns the canonical state or the first disagreement.
pub fn m_build(start: MStart, hist: &[MOp], ids: &[u32]) -> Result<(Vec<u32>, usize, usize), (String, String)> {
    // a panic inside Mapping is a verdict about Mapping, not a failure of the harness
    match guarded("mapping", || m_build_inner(start, hist, ids)) {
        Ok(r) => r,
        Err(Err(pi)) => Err((format!("panic:{}", pi.site), format!("Mapping panicked: {} at {}", pi.msg, pi.site))),
        Err(Ok(_)) => Err(("panic".into(), "unexpected abort".into())),
    }
}

fn m_build_inner(start: MStart, hist: &[MOp], ids: &[u32]) -> Result<(Vec<u32>, usize, usize), (String, String)> {
    let mut m = m_new(start);
    let mut r: BTreeMap<u32, u32> = BTreeMap::new();
    let mut max_ever = 0u32;
    for (step, op) in hist.iter().enumerate() {
        match *op {
            MOp::Insert(id) => {
                let v = 1000 + step as u32;
                let a = m.insert(NameId(id), v);
                let b = r.insert(id, v);
                max_ever = max_ever.max(id);
                if a != b {
                    return Err(("insert-return".into(), format!("insert({id}) returned {a:?}, reference {b:?}")));
                }
            }
            MOp::Unset(id) => {
                let a = m.unset(NameId(id));
                let b = r.remove(&id);
                if a != b {
                    return Err(("unset-return".into(), format!("unset({id}) returned {a:?}, reference {b:?}")));
                }
            }
        }
    }
    m_observe(&m, &r, ids, "")?;
    // get_mut agrees with get, and a value written through it is the value read back
    for &id in ids {
        let a = m.get_mut(NameId(id)).map(|v| {
            *v += 5000;
            *v
        });
        let b = r.get_mut(&id).map(|v| {
            *v += 5000;
            *v
        });
        if a != b {
            return Err(("get_mut".into(), format!("get_mut({id}) = {a:?}, reference {b:?}")));
        }
    }
    m_observe(&m, &r, ids, "after writes through get_mut: ")?;
    // serde round trip, then the same observations
    let text = serde_json::to_string(&m).map_err(|e| ("serde-ser".to_string(), e.to_string()))?;
    let back: Mapping<NameId, u32> = serde_json::from_str(&text).map_err(|e| ("serde-de".to_string(), format!("{e} on {text}")))?;
    m_observe(&back, &r, ids, "after serde round trip: ")?;
    // a deserialised mapping is a mapping like any other: serialise it again, and keep using it
    let text2 = serde_json::to_string(&back).map_err(|e| ("serde-ser".to_string(), e.to_string()))?;
    let back2: Mapping<NameId, u32> = serde_json::from_str(&text2).map_err(|e| ("serde-de".to_string(), format!("{e} on {text2}")))?;
    m_observe(&back2, &r, ids, "after a second serde round trip: ")?;
    let mut back = back;
    let mut r2 = r.clone();
    for (k, &id) in [3u32, 130].iter().enumerate() {
        let v = 9000 + k as u32;
        if back.insert(NameId(id), v) != r2.insert(id, v) {
            return Err(("serde-insert-return".into(), format!("insert({id}) on a deserialised mapping returned something else than the reference")));
        }
    }
    let mut ids2 = ids.to_vec();
    ids2.extend([3u32, 130]);
    m_observe(&back, &r2, &ids2, "after inserts into a deserialised mapping (serde): ")?;
    let text3 = serde_json::to_string(&back).map_err(|e| ("serde-ser".to_string(), e.to_string()))?;
    let back3: Mapping<NameId, u32> = serde_json::from_str(&text3).map_err(|e| ("serde-de".to_string(), format!("{e} on {text3}")))?;
    m_observe(&back3, &r2, &ids2, "after inserts into a deserialised mapping and a further serde round trip: ")?;
    Ok((r.keys().copied().collect(), max_ever as usize, m.slots()))
}

fn m_observe(m: &Mapping<NameId, u32>, r: &BTreeMap<u32, u32>, ids: &[u32], ctx: &str) -> Result<(), (String, String)> {
    let pre = if ctx.is_empty() {
        ""
    } else if ctx.contains("serde") {
        "serde-"
    } else {
        "getmut-"
    };
    for &id in ids {
        let a = m.get(NameId(id)).copied();
        let b = r.get(&id).copied();
        if a != b {
            return Err((format!("{}get", pre), format!("{ctx}get({id}) = {a:?}, reference {b:?}")));
        }
    }
    if m.len() != r.len() {
        return Err((format!("{}len", pre), format!("{ctx}len() = {}, reference {}", m.len(), r.len())));
    }
    if m.is_empty() != r.is_empty() {
        return Err(("is_empty".into(), format!("{ctx}is_empty() = {}", m.is_empty())));
    }
    let it: Vec<(u32, u32)> = m.iter().map(|(k, v)| (k.0, *v)).take(r.len() + 1000).collect();
    let rf: Vec<(u32, u32)> = r.iter().map(|(k, v)| (*k, *v)).collect();
    if it != rf {
        let sparse = rf.iter().any(|(k, _)| *k as usize >= rf.len());
        return Err((
            format!("{}iter{}", pre, if sparse { ":sparse-ids" } else { "" }),
            format!("{ctx}iter() yields {it:?}, reference {rf:?}"),
        ));
    }
    Ok(())
}

pub fn run_c19(ctx: &Ctx) -> i32 {
    let depth = if ctx.tier == Tier::Quick { 5 } else { 8 };
    let mut rep = Report::new(
        "model_checking",
        "breadth-first search over all sequences of insert(id, fresh value) / unset(id), id in {0,1,2,5,127,128,129,300}, from Mapping::default(), with_capacity(1) and with_capacity(200); after every sequence get (all ids), len, is_empty, iter and a serde_json round trip are compared with a BTreeMap; states are deduplicated on (key set, largest id ever inserted, slots()); non-trivial = distinct canonical states holding >= 1 entry",
    );
    rep.assumptions.push("canonical form drops the stored values: they are fresh per operation and compared with the reference on every step, futures do not depend on them".into());
    let mut acc = Acc::default();
    let mut ops: Vec<MOp> = vec![];
    for &id in &M_IDS {
        ops.push(MOp::Insert(id));
        ops.push(MOp::Unset(id));
    }
    let mut states = 0u64;
    let mut transitions = 0u64;
    let mut max_depth = 0usize;
    for start in [MStart::Default, MStart::Cap1, MStart::Cap200] {
        let mut seen: HashSet<(Vec<u32>, usize, usize)> = HashSet::new();
        let mut frontier: Vec<Vec<MOp>> = vec![vec![]];
        match m_build(start, &[], &M_IDS) {
            Ok(c) => {
                seen.insert(c);
            }
            Err((sig, what)) => acc.violation(viol("C19", &sig, what, json!({"kind":"c19","start":start,"history":[]}), (0, 0, 0))),
        }
        for d in 1..=depth {
            let mut next = vec![];
            for h in &frontier {
                for op in &ops {
                    let mut h2 = h.clone();
                    h2.push(*op);
                    transitions += 1;
                    acc.evaluations += 1;
                    match m_build(start, &h2, &M_IDS) {
                        Ok(c) => {
                            if !c.0.is_empty() {
                                let mut hh = std::collections::hash_map::DefaultHasher::new();
                                use std::hash::{Hash, Hasher};
                                (start, &c).hash(&mut hh);
                                acc.mark_nontrivial(hh.finish());
                            }
                            if seen.insert(c) {
                                next.push(h2);
                                max_depth = d;
                            }
                        }
                        Err((sig, what)) => {
                            acc.violation(viol(
                                "C19",
                                &sig,
                                format!("{what} (start {start:?}, history {h2:?})"),
                                json!({"kind": "c19", "start": start, "history": h2}),
                                (0, transitions, 0),
                            ));
                            // a state that already disagrees is not expanded further
                        }
                    }
                }
            }
            frontier = next;
            if frontier.is_empty() {
                break;
            }
        }
        states += seen.len() as u64;
        acc.sample(|| json!({"start": format!("{start:?}"), "example_history": frontier.first()}));
    }
    // every sequence up to a smaller depth WITHOUT state merging: a defect that corrupts state the
    // canonical form does not contain (it is derived from the reference model) cannot hide behind it
    let full_depth = if ctx.tier == Tier::Quick { 4 } else { 5 };
    let mut full = 0u64;
    for start in [MStart::Default, MStart::Cap200] {
        let n = ops.len() as u64;
        for len in 1..=full_depth {
            for code in 0..n.pow(len as u32) {
                let mut x = code;
                let h: Vec<MOp> = (0..len)
                    .map(|_| {
                        let o = ops[(x % n) as usize];
                        x /= n;
                        o
                    })
                    .collect();
                full += 1;
                acc.evaluations += 1;
                if let Err((sig, what)) = m_build(start, &h, &M_IDS) {
                    acc.violation(viol("C19", &sig, format!("{what} (start {start:?}, history {h:?})"), json!({"kind": "c19", "start": start, "history": h}), (1, full, 0)));
                }
            }
        }
    }
    acc.add("sequences_enumerated_without_state_merging", full);
    transitions += full;
    acc.add("states", states);
    acc.add("transitions", transitions);
    acc.max("max:depth_with_new_states", max_depth as u64);
    acc.finalize();
    eprintln!("[C19] states={states} transitions={transitions} max_depth={max_depth} {:.1}s", ctx.t0.elapsed().as_secs_f64());
    rep.push("Mapping operation sequences", acc, true, transitions);
    rep.extra.insert("states".into(), json!(states));
    rep.extra.insert("transitions".into(), json!(transitions));
    rep.extra.insert("traces_validated_against_impl".into(), json!(transitions));
    rep.extra.insert("depth".into(), json!(depth));
    rep.require(states > 100, "too few states");
    rep.finish(ctx)
}

pub fn replay_c19(v: &serde_json::Value) -> Vec<String> {
    let start: MStart = serde_json::from_value(v["start"].clone()).expect("start");
    let hist: Vec<MOp> = serde_json::from_value(v["history"].clone()).expect("history");
    match m_build(start, &hist, &M_IDS) {
        Ok(_) => vec![],
        Err((sig, _)) => vec![sig],
    }
}

// ===========================================================================
// C18: Pool
// ===========================================================================

#[derive(Clone, Debug, PartialEq, Eq, Hash)]
pub struct Vs(pub String);
impl VersionSet for Vs {
    type V = u32;
}

#[derive(Clone, Copy, Debug, PartialEq, Eq, Hash, serde::Serialize, serde::Deserialize)]
pub enum POp {
    Name(u8),
    Str(u8),
    /// (name index among names interned so far, version set label index)
    VSet(u8, u8),
    Solvable(u8),
    /// union of the last k interned version sets (k = 2, 3, 4 or 6); k = 9 / 8 / 7: members [x, y, x] / [x, x] / [x, x, y]
    Union(u8),
}

const P_NAMES: [&str; 3] = ["x", "y", "z"];
const P_STRS: [&str; 2] = ["p", "q"];
const P_VS: [&str; 2] = ["v1", "v2"];

struct PRef {
    names: Vec<String>,
    name_ids: HashMap<String, u32>,
    strs: Vec<String>,
    str_ids: HashMap<String, u32>,
    vsets: Vec<(u32, String)>,
    vset_ids: HashMap<(u32, String), u32>,
    solvs: Vec<(u32, u32)>,
    unions: Vec<Vec<u32>>,
}

/// addresses handed out so far: (kind, id) -> address
type Addrs = HashMap<(u8, u32), usize>;

fn p_check_all(pool: &Pool<Vs>, r: &PRef, addrs: &mut Addrs) -> Result<(), (String, String)> {
    let mut note = |kind: u8, id: u32, addr: usize| -> Result<(), (String, String)> {
        match addrs.get(&(kind, id)) {
            Some(&a) if a != addr => Err(("reference-moved".into(), format!("the item (kind {kind}, id {id}) moved from {a:#x} to {addr:#x}: earlier references dangle"))),
            _ => {
                addrs.insert((kind, id), addr);
                Ok(())
            }
        }
    };
    for (i, n) in r.names.iter().enumerate() {
        let got = pool.resolve_package_name(NameId(i as u32));
        if got != n {
            return Err(("resolve-name".into(), format!("resolve_package_name({i}) = {got:?}, interned {n:?}")));
        }
        note(0, i as u32, got as *const String as usize)?;
        if pool.lookup_package_name(n) != Some(NameId(i as u32)) {
            return Err(("lookup-name".into(), format!("lookup_package_name({n:?}) != {i}")));
        }
    }
    for (i, s) in r.strs.iter().enumerate() {
        let got = pool.resolve_string(StringId(i as u32));
        if got != s {
            return Err(("resolve-string".into(), format!("resolve_string({i}) = {got:?}, interned {s:?}")));
        }
        note(1, i as u32, got.as_ptr() as usize)?;
    }
    for (i, (n, v)) in r.vsets.iter().enumerate() {
        let got = pool.resolve_version_set(VersionSetId(i as u32));
        if &got.0 != v || pool.resolve_version_set_package_name(VersionSetId(i as u32)) != NameId(*n) {
            return Err(("resolve-version-set".into(), format!("resolve_version_set({i}) = {got:?}, interned ({n}, {v:?})")));
        }
        note(2, i as u32, got as *const Vs as usize)?;
    }
    for (i, (n, rec)) in r.solvs.iter().enumerate() {
        let got = pool.resolve_solvable(SolvableId(i as u32));
        if got.name != NameId(*n) || got.record != *rec {
            return Err(("resolve-solvable".into(), format!("resolve_solvable({i}) = ({:?}, {}), interned ({n}, {rec})", got.name, got.record)));
        }
        note(3, i as u32, got as *const _ as usize)?;
    }
    for (i, un) in r.unions.iter().enumerate() {
        let got: Vec<u32> = pool.resolve_version_set_union(VersionSetUnionId(i as u32)).map(|v| v.0).collect();
        if &got != un {
            return Err(("resolve-union".into(), format!("resolve_version_set_union({i}) = {got:?}, interned {un:?}")));
        }
    }
    for n in P_NAMES.iter().chain(["never-interned"].iter()) {
        let expect = r.name_ids.get(*n).map(|&i| NameId(i));
        if pool.lookup_package_name(&n.to_string()) != expect {
            return Err(("lookup-name".into(), format!("lookup_package_name({n:?}) != {expect:?}")));
        }
    }
    Ok(())
}

/// Replays prefill + history on a fresh Pool; all references handed out so far are
/// re-validated (address + content) after every operation.
pub fn p_build(prefill: usize, hist: &[POp]) -> Result<Vec<usize>, (String, String)> {
    // a panic inside Pool / Arena is a verdict about them, not a failure of the harness
    match guarded("pool", || p_build_inner(prefill, hist)) {
        Ok(r) => r,
        Err(Err(pi)) => Err((format!("panic:{}", pi.site), format!("Pool panicked: {} at {}", pi.msg, pi.site))),
        Err(Ok(_)) => Err(("panic".into(), "unexpected abort".into())),
    }
}

fn p_build_inner(prefill: usize, hist: &[POp]) -> Result<Vec<usize>, (String, String)> {
    let pool: Pool<Vs> = Pool::new();
    let mut r = PRef {
        names: vec![],
        name_ids: HashMap::new(),
        strs: vec![],
        str_ids: HashMap::new(),
        vsets: vec![],
        vset_ids: HashMap::new(),
        solvs: vec![],
        unions: vec![],
    };
    let mut addrs: Addrs = HashMap::new();
    // start states >= 1 000 000: the same pre-fill, and the alphabet's package names are interned already
    // (so that version-set / solvable operations on two different names fit into short histories)
    let names_first = prefill >= 1_000_000;
    let prefill = prefill % 1_000_000;
    // prefill every arena with `prefill` junk items
    for i in 0..prefill {
        let n = format!("junk{i}");
        let id = pool.intern_package_name(n.clone());
        if id.0 as usize != r.names.len() {
            return Err(("dense-name".into(), format!("prefill: name id {} not dense", id.0)));
        }
        r.name_ids.insert(n.clone(), id.0);
        r.names.push(n);
        let s = format!("js{i}");
        let sid = pool.intern_string(s.clone());
        r.str_ids.insert(s.clone(), sid.0);
        r.strs.push(s);
        let v = format!("jv{i}");
        let vid = pool.intern_version_set(NameId(0), Vs(v.clone()));
        r.vset_ids.insert((0, v.clone()), vid.0);
        r.vsets.push((0, v));
        let so = pool.intern_solvable(NameId(0), i as u32);
        r.solvs.push((0, i as u32));
        if so.0 as usize != r.solvs.len() - 1 {
            return Err(("dense-solvable".into(), "prefill".into()));
        }
    }
    if names_first {
        for n in P_NAMES {
            let id = pool.intern_package_name(n.to_string());
            if id.0 as usize != r.names.len() {
                return Err(("dense-name".into(), format!("start state: name id {} not dense", id.0)));
            }
            r.name_ids.insert(n.to_string(), id.0);
            r.names.push(n.to_string());
        }
    }
    p_check_all(&pool, &r, &mut addrs)?;
    for (step, op) in hist.iter().enumerate() {
        match *op {
            POp::Name(i) => {
                let n = P_NAMES[i as usize].to_string();
                let id = pool.intern_package_name(n.clone());
                match r.name_ids.get(&n) {
                    Some(&e) if e != id.0 => return Err(("intern-name-unstable".into(), format!("step {step}: name {n:?} interned as {} before, {} now", e, id.0))),
                    Some(_) => {}
                    None => {
                        if id.0 as usize != r.names.len() {
                            return Err(("intern-name-id".into(), format!("step {step}: new name {n:?} got id {} (expected dense {})", id.0, r.names.len())));
                        }
                        r.name_ids.insert(n.clone(), id.0);
                        r.names.push(n);
                    }
                }
            }
            POp::Str(i) => {
                let s = P_STRS[i as usize].to_string();
                let id = pool.intern_string(s.clone());
                match r.str_ids.get(&s) {
                    Some(&e) if e != id.0 => return Err(("intern-string-unstable".into(), format!("step {step}: string {s:?} interned as {e} before, {} now", id.0))),
                    Some(_) => {}
                    None => {
                        if id.0 as usize != r.strs.len() {
                            return Err(("intern-string-id".into(), format!("step {step}: new string got id {} (expected {})", id.0, r.strs.len())));
                        }
                        r.str_ids.insert(s.clone(), id.0);
                        r.strs.push(s);
                    }
                }
            }
            POp::VSet(ni, vi) => {
                // name: the ni-th of the alphabet names if interned, otherwise name 0 when available
                let name = match r.name_ids.get(P_NAMES[ni as usize]) {
                    Some(&n) => n,
                    None => continue,
                };
                let v = P_VS[vi as usize].to_string();
                let id = pool.intern_version_set(NameId(name), Vs(v.clone()));
                match r.vset_ids.get(&(name, v.clone())) {
                    Some(&e) if e != id.0 => return Err(("intern-version-set-unstable".into(), format!("step {step}: version set ({name},{v:?}) interned as {e} before, {} now", id.0))),
                    Some(_) => {}
                    None => {
                        if id.0 as usize != r.vsets.len() {
                            return Err((
                                "intern-version-set-id".into(),
                                format!("step {step}: new version set ({name},{v:?}) got id {} (expected a fresh dense id {})", id.0, r.vsets.len()),
                            ));
                        }
                        r.vset_ids.insert((name, v.clone()), id.0);
                        r.vsets.push((name, v));
                    }
                }
            }
            POp::Solvable(ni) => {
                let name = match r.name_ids.get(P_NAMES[ni as usize]) {
                    Some(&n) => n,
                    None => continue,
                };
                let rec = 7000 + step as u32;
                let id = pool.intern_solvable(NameId(name), rec);
                if id.0 as usize != r.solvs.len() {
                    return Err(("intern-solvable-id".into(), format!("step {step}: solvable got id {} (expected unique dense id {})", id.0, r.solvs.len())));
                }
                r.solvs.push((name, rec));
            }
            POp::Union(k) => {
                // k = 9: [x, y, x]; k = 8: [x, x] (adjacent equal members); k = 7: [x, x, y]
                let need = match k {
                    9 | 7 => 2,
                    8 => 1,
                    _ => k as usize,
                };
                if r.vsets.len() < need {
                    continue;
                }
                let last = r.vsets.len() as u32 - 1;
                let members: Vec<u32> = match k {
                    9 => vec![last, last - 1, last],
                    8 => vec![last, last],
                    7 => vec![last, last, last - 1],
                    _ => (0..k as u32).map(|i| last - i).collect(),
                };
                let id = pool.intern_version_set_union(VersionSetId(members[0]), members[1..].iter().map(|&m| VersionSetId(m)));
                if id.0 as usize != r.unions.len() {
                    return Err(("intern-union-id".into(), format!("step {step}: union got id {} (expected unique dense id {})", id.0, r.unions.len())));
                }
                r.unions.push(members);
            }
        }
        p_check_all(&pool, &r, &mut addrs)?;
    }
    // canonical state: which alphabet items are interned (by id order) + arena lengths
    let mut canon = vec![r.names.len(), r.strs.len(), r.vsets.len(), r.solvs.len(), r.unions.len()];
    for n in P_NAMES {
        canon.push(r.name_ids.get(n).map_or(usize::MAX, |&i| i as usize));
    }
    for s in P_STRS {
        canon.push(r.str_ids.get(s).map_or(usize::MAX, |&i| i as usize));
    }
    for n in P_NAMES {
        for v in P_VS {
            let key = r.name_ids.get(n).map(|&i| (i, v.to_string()));
            canon.push(key.and_then(|k| r.vset_ids.get(&k).copied()).map_or(usize::MAX, |i| i as usize));
        }
    }
    // union contents matter for futures of resolve only; they are fully determined by the lengths
    Ok(canon)
}

pub fn run_c18(ctx: &Ctx) -> i32 {
    let q = ctx.tier == Tier::Quick;
    let depth = if q { 4 } else { 6 };
    let mut rep = Report::new(
        "model_checking",
        "breadth-first search over sequences of intern_package_name (3 names), intern_string (2), intern_version_set (3 names x 2 sets), intern_solvable (3 names), intern_version_set_union (2, 3, 4 or 6 distinct members, or with repeated members) from pools pre-filled with 0/126/127/128/255/256 items per arena (so the 128-element chunk boundary is crossed within the depth); after every operation every id ever returned is resolved again and must give the same content at the same address; non-trivial = distinct canonical states",
    );
    rep.assumptions.push("address stability is observed by re-resolving ids (safe code); a moved element shows as a changed address".into());
    let mut ops = vec![];
    for i in 0..3 {
        ops.push(POp::Name(i));
    }
    for i in 0..2 {
        ops.push(POp::Str(i));
    }
    for n in 0..3 {
        for v in 0..2 {
            ops.push(POp::VSet(n, v));
        }
    }
    for n in 0..3 {
        ops.push(POp::Solvable(n));
    }
    ops.push(POp::Union(2));
    ops.push(POp::Union(3));
    // more members than the small-vector representation of a union keeps inline
    ops.push(POp::Union(4));
    ops.push(POp::Union(6));
    ops.push(POp::Union(9));
    ops.push(POp::Union(8));
    ops.push(POp::Union(7));
    // 128 + {3,4,7,8,15,16,..}: a chunk that was not pre-sized would reallocate right after these sizes
    let prefills: Vec<usize> = vec![0, 126, 127, 128, 131, 132, 135, 136, 143, 144, 159, 160, 191, 192, 255, 256, 1_000_000, 1_000_125, 1_000_127];
    let results: Vec<(Acc, u64, u64)> = std::thread::scope(|sc| {
        let hs: Vec<_> = prefills
            .iter()
            .map(|&pf| {
                let ops = ops.clone();
                sc.spawn(move || {
                    let mut acc = Acc::default();
                    let mut seen: HashSet<Vec<usize>> = HashSet::new();
                    let mut frontier: Vec<Vec<POp>> = vec![vec![]];
                    let mut transitions = 0u64;
                    match p_build(pf, &[]) {
                        Ok(c) => {
                            seen.insert(c);
                        }
                        Err((sig, what)) => acc.violation(viol("C18", &sig, what, json!({"kind":"c18","prefill":pf,"history":[]}), (0, 0, 0))),
                    }
                    for _d in 1..=depth {
                        let mut next = vec![];
                        for h in &frontier {
                            for op in &ops {
                                let mut h2 = h.clone();
                                h2.push(*op);
                                transitions += 1;
                                acc.evaluations += 1;
                                match p_build(pf, &h2) {
                                    Ok(c) => {
                                        let mut hh = std::collections::hash_map::DefaultHasher::new();
                                        use std::hash::{Hash, Hasher};
                                        (pf, &c).hash(&mut hh);
                                        acc.mark_nontrivial(hh.finish());
                                        if seen.insert(c) {
                                            next.push(h2);
                                        }
                                    }
                                    Err((sig, what)) => acc.violation(viol(
                                        "C18",
                                        &sig,
                                        format!("{what} (prefill {pf}, history {h2:?})"),
                                        json!({"kind": "c18", "prefill": pf, "history": h2}),
                                        (pf, transitions, 0),
                                    )),
                                }
                            }
                        }
                        frontier = next;
                    }
                    acc.sample(|| json!({"prefill": pf, "example_history": frontier.first()}));
                    (acc, seen.len() as u64, transitions)
                })
            })
            .collect();
        hs.into_iter().map(|h| h.join().unwrap()).collect()
    });
    // every sequence up to a smaller depth WITHOUT state merging (see C19), from prefill 0 and 127
    let full_depth = if q { 4 } else { 5 };
    let full_results: Vec<Acc> = std::thread::scope(|sc| {
        let mut hs = vec![];
        for pf in [0usize, 127, 1_000_000] {
            for (fi, first) in ops.iter().enumerate() {
                let ops = ops.clone();
                let first = *first;
                hs.push(sc.spawn(move || {
                    let mut acc = Acc::default();
                    let n = ops.len() as u64;
                    for len in 0..full_depth {
                        for code in 0..n.pow(len as u32) {
                            let mut x = code;
                            let mut h = vec![first];
                            for _ in 0..len {
                                h.push(ops[(x % n) as usize]);
                                x /= n;
                            }
                            acc.evaluations += 1;
                            if let Err((sig, what)) = p_build(pf, &h) {
                                acc.violation(viol("C18", &sig, format!("{what} (prefill {pf}, history {h:?})"), json!({"kind": "c18", "prefill": pf, "history": h}), (100 + pf, fi as u64 * 1_000_000 + code, len as u32)));
                            }
                        }
                    }
                    acc.add("sequences_enumerated_without_state_merging", acc.evaluations);
                    acc
                }));
            }
        }
        hs.into_iter().map(|h| h.join().unwrap()).collect()
    });
    let mut full_acc = Acc::default();
    for a in full_results {
        full_acc.merge(a);
    }
    // 128 chunks of 128 elements: the next boundary of the chunked arenas. Every sequence of length 2
    // from pools holding 128 * 128 - 1 items of every kind (the sequences cross item 16 384).
    {
        let big: Vec<Acc> = std::thread::scope(|sc| {
            let mut hs = vec![];
            for (fi, first) in ops.iter().enumerate() {
                let ops = ops.clone();
                let first = *first;
                hs.push(sc.spawn(move || {
                    let mut acc = Acc::default();
                    let pf = 128 * 128 - 1 + 1_000_000;
                    for second in &ops {
                        let h = vec![first, *second];
                        acc.evaluations += 1;
                        if let Err((sig, what)) = p_build(pf, &h) {
                            acc.violation(viol("C18", &sig, format!("{what} (prefill 16383 items per arena, history {h:?})"), json!({"kind": "c18", "prefill": pf, "history": h}), (200, fi as u64, 0)));
                            return acc;
                        }
                    }
                    acc.add("sequences_from_16383_items", acc.evaluations);
                    acc
                }));
            }
            hs.into_iter().map(|h| h.join().unwrap()).collect()
        });
        for a in big {
            full_acc.merge(a);
        }
    }
    let full_n = full_acc.evaluations;
    full_acc.finalize();
    rep.push("Pool histories without state merging (prefill 0 and 127)", full_acc, true, full_n);
    let mut states = 0;
    let mut transitions = full_n;
    for (i, (mut acc, s, t)) in results.into_iter().enumerate() {
        states += s;
        transitions += t;
        acc.add("states", s);
        acc.add("transitions", t);
        acc.finalize();
        rep.push(&format!("Pool histories from prefill {}", prefills[i]), acc, true, t);
    }
    eprintln!("[C18] states={states} transitions={transitions} {:.1}s", ctx.t0.elapsed().as_secs_f64());
    rep.extra.insert("states".into(), json!(states));
    rep.extra.insert("transitions".into(), json!(transitions));
    rep.extra.insert("traces_validated_against_impl".into(), json!(transitions));
    rep.extra.insert("depth".into(), json!(depth));
    rep.require(states > 100, "too few states");
    rep.finish(ctx)
}

pub fn replay_c18(v: &serde_json::Value) -> Vec<String> {
    let pf: usize = serde_json::from_value(v["prefill"].clone()).expect("prefill");
    let hist: Vec<POp> = serde_json::from_value(v["history"].clone()).expect("history");
    match p_build(pf, &hist) {
        Ok(_) => vec![],
        Err((sig, _)) => vec![sig],
    }
}

// ===========================================================================
// C20: SolverCache
// ===========================================================================

#[derive(Clone, Copy, Debug, PartialEq, Eq, Hash, serde::Serialize, serde::Deserialize)]
pub enum COp {
    Cands(Id),
    Matching(Id),
    NonMatching(Id),
    Sorted(Req),
    Deps(Id),
    Avail(Id),
}

/// the operation alphabet of a universe: 2 packages, a few version sets, 1 union, 2 solvables
pub fn c20_alphabet(u: &Universe) -> Vec<COp> {
    let mut ops = vec![];
    let names: Vec<Id> = (0..u.names.len() as Id).take(3).collect();
    for &n in &names {
        ops.push(COp::Cands(n));
    }
    // version sets: per name at most: full, a singleton, the empty one, a proper subset
    let mut chosen: Vec<Id> = vec![];
    for &n in &names {
        let of: Vec<Id> = (0..u.vsets.len() as Id).filter(|&v| u.vsets[v as usize].name == n).collect();
        let mut pick = |f: &dyn Fn(&VSet) -> bool| {
            if let Some(&v) = of.iter().find(|&&v| f(&u.vsets[v as usize]) && !chosen.contains(&v)) {
                chosen.push(v);
            }
        };
        let nc = u.names[n as usize].cands.len();
        pick(&|v| v.members.len() == nc && nc > 0);
        pick(&|v| v.members.len() == 1);
        pick(&|v| v.members.is_empty());
        pick(&|v| v.members.len() > 1 && v.members.len() < nc);
    }
    for &v in &chosen {
        ops.push(COp::Matching(v));
        ops.push(COp::NonMatching(v));
        ops.push(COp::Sorted(Req::Single(v)));
    }
    for un in 0..u.unions.len().min(2) {
        ops.push(COp::Sorted(Req::Union(un as Id)));
    }
    let mut solv: Vec<Id> = vec![];
    for &n in &names {
        if let Some(&c) = u.names[n as usize].cands.first() {
            solv.push(c);
        }
        if let Some(&c) = u.names[n as usize].cands.last() {
            if !solv.contains(&c) {
                solv.push(c);
            }
        }
    }
    solv.truncate(3);
    for &s in &solv {
        ops.push(COp::Deps(s));
        ops.push(COp::Avail(s));
    }
    ops
}

fn is_hinted(u: &Universe, s: Id) -> bool {
    let n = &u.names[u.solvs[s as usize].name as usize];
    if n.missing || !n.cands.contains(&s) && !matches!(&n.hint, Hint::Some(h) if h.contains(&s)) {
        return false;
    }
    match &n.hint {
        Hint::None => false,
        Hint::All => n.cands.contains(&s),
        Hint::Some(h) => h.contains(&s),
    }
}

/// Replays a call sequence on a fresh bare SolverCache and checks every answer.
pub fn c20_build(case: &Case, hist: &[COp]) -> Result<(), (String, String)> {
    c20_build_with(case, hist, false)
}

/// `rev`: the provider's filter_candidates answers in reverse listing order; the cached matching /
/// non-matching lists must then be exactly those answers ("as filter_candidates defines").
pub fn c20_build_with(case: &Case, hist: &[COp], rev: bool) -> Result<(), (String, String)> {
    c20_build_full(case, hist, rev, None)
}

/// Runs `op` on the cache without judging the answer; returns true if the call succeeded.
fn c20_raw(cache: &SolverCache<Prov>, op: COp) -> bool {
    match op {
        COp::Cands(n) => cache.get_or_cache_candidates(NameId(n)).now_or_never().map_or(false, |r| r.is_ok()),
        COp::Matching(v) => cache.get_or_cache_matching_candidates(VersionSetId(v)).now_or_never().map_or(false, |r| r.is_ok()),
        COp::NonMatching(v) => cache.get_or_cache_non_matching_candidates(VersionSetId(v)).now_or_never().map_or(false, |r| r.is_ok()),
        COp::Sorted(r) => cache.get_or_cache_sorted_candidates(to_req(r)).now_or_never().map_or(false, |r| r.is_ok()),
        COp::Deps(s) => cache.get_or_cache_dependencies(SolvableId(s)).now_or_never().map_or(false, |r| r.is_ok()),
        COp::Avail(s) => {
            let _ = cache.are_dependencies_available_for(SolvableId(s));
            true
        }
    }
}

/// `pre = (op, k)`: before the judged history, `op` is issued with the provider's cancellation firing
/// (once) at its k-th poll; whatever that interrupted call left behind in the cache, every later
/// answer must still be the reference answer. Returns Ok(true) if the interrupted call was cancelled.
pub fn c20_build_full(case: &Case, hist: &[COp], rev: bool, pre: Option<(COp, u32)>) -> Result<(), (String, String)> {
    let u = &case.u;
    let sem = Sem::new(u, &case.p);
    let mut prov = Prov::new(u);
    prov.logging = true;
    prov.filter_reversed = rev;
    let as_filter = |v: &[Id]| -> Vec<Id> {
        let mut v = v.to_vec();
        if rev {
            v.reverse();
        }
        v
    };
    let log = prov.log.clone();
    let cache = SolverCache::new(prov);
    let mut fetched_c: BTreeSet<Id> = BTreeSet::new();
    let mut fetched_d: BTreeSet<Id> = BTreeSet::new();
    // answers seen so far: op -> (content, address)
    let mut seen: HashMap<COp, (Vec<u32>, usize)> = HashMap::new();
    let provider_calls = |l: &Vec<Ev>| l.len();
    if let Some((op, k)) = pre {
        cache.provider().polls.set(0);
        cache.provider().cancel.set(CancelPlan::At { k, sticky: false });
        let _ = c20_raw(&cache, op);
        cache.provider().cancel.set(CancelPlan::Never);
        // what the interrupted call did fetch counts as fetched
        for e in log.borrow().iter() {
            match e {
                Ev::Cands(n) => {
                    fetched_c.insert(*n);
                }
                Ev::Deps(d) => {
                    fetched_d.insert(*d);
                }
                _ => {}
            }
        }
    }
    for (step, op) in hist.iter().enumerate() {
        let before = provider_calls(&log.borrow());
        let (content, addr): (Vec<u32>, usize) = match *op {
            COp::Cands(n) => {
                let c = cache.get_or_cache_candidates(NameId(n)).now_or_never().expect("sync").map_err(|_| ("cancelled".to_string(), "unexpected cancel".to_string()))?;
                fetched_c.insert(n);
                let got: Vec<u32> = c.candidates.iter().map(|s| s.0).collect();
                if got != sem.cands(n) {
                    return Err(("candidates".into(), format!("step {step}: candidates of {n} = {got:?}, provider lists {:?}", sem.cands(n))));
                }
                (got, c as *const _ as usize)
            }
            COp::Matching(v) => {
                let c = cache.get_or_cache_matching_candidates(VersionSetId(v)).now_or_never().expect("sync").map_err(|_| ("cancelled".to_string(), String::new()))?;
                fetched_c.insert(u.vsets[v as usize].name);
                let got: Vec<u32> = c.iter().map(|s| s.0).collect();
                if got != as_filter(sem.matching(v)) {
                    return Err(("matching".into(), format!("step {step}: matching({v}) = {got:?}, filter_candidates defines {:?}", as_filter(sem.matching(v)))));
                }
                (got, c.as_ptr() as usize)
            }
            COp::NonMatching(v) => {
                let c = cache.get_or_cache_non_matching_candidates(VersionSetId(v)).now_or_never().expect("sync").map_err(|_| ("cancelled".to_string(), String::new()))?;
                fetched_c.insert(u.vsets[v as usize].name);
                let got: Vec<u32> = c.iter().map(|s| s.0).collect();
                if got != as_filter(sem.non_matching(v)) {
                    return Err(("non-matching".into(), format!("step {step}: non_matching({v}) = {got:?}, filter_candidates defines {:?}", as_filter(sem.non_matching(v)))));
                }
                // partition: matching ∪ non-matching = candidates, disjoint
                let mut all: Vec<u32> = got.clone();
                all.extend_from_slice(sem.matching(v));
                all.sort();
                let mut c2 = sem.cands(u.vsets[v as usize].name).to_vec();
                c2.sort();
                if all != c2 {
                    return Err(("partition".into(), format!("step {step}: matching and non-matching of {v} do not partition the candidate list")));
                }
                (got, c.as_ptr() as usize)
            }
            COp::Sorted(r) => {
                let c = cache.get_or_cache_sorted_candidates(to_req(r)).now_or_never().expect("sync").map_err(|_| ("cancelled".to_string(), String::new()))?;
                for v in u.req_vsets(r) {
                    fetched_c.insert(u.vsets[v as usize].name);
                }
                let got: Vec<u32> = c.iter().map(|s| s.0).collect();
                let want = sem.req_sorted(r);
                if got != want {
                    return Err(("sorted".into(), format!("step {step}: sorted({r:?}) = {got:?}, expected (rank order, favored first) {want:?}")));
                }
                (got, c.as_ptr() as usize)
            }
            COp::Deps(s) => {
                let d = cache.get_or_cache_dependencies(SolvableId(s)).now_or_never().expect("sync").map_err(|_| ("cancelled".to_string(), String::new()))?;
                fetched_d.insert(s);
                let want = to_dependencies(&u.solvs[s as usize].deps);
                let same = match (d, &want) {
                    (resolvo::Dependencies::Known(a), resolvo::Dependencies::Known(b)) => a.requirements == b.requirements && a.constrains == b.constrains,
                    (resolvo::Dependencies::Unknown(a), resolvo::Dependencies::Unknown(b)) => a == b,
                    _ => false,
                };
                if !same {
                    return Err(("dependencies".into(), format!("step {step}: dependencies of {s} differ from the provider's")));
                }
                (vec![s], d as *const _ as usize)
            }
            COp::Avail(s) => {
                let got = cache.are_dependencies_available_for(SolvableId(s));
                let pkg = u.solvs[s as usize].name;
                let want = fetched_d.contains(&s) || (fetched_c.contains(&pkg) && is_hinted(u, s));
                if got != want {
                    return Err((
                        "availability".into(),
                        format!(
                            "step {step}: are_dependencies_available_for({}) = {got}, expected {want} (deps fetched: {}, package fetched: {}, hinted: {})",
                            u.solv_label(s),
                            fetched_d.contains(&s),
                            fetched_c.contains(&pkg),
                            is_hinted(u, s)
                        ),
                    ));
                }
                (vec![got as u32], 0)
            }
        };
        let after = provider_calls(&log.borrow());
        if let Some((c0, a0)) = seen.get(op) {
            if !matches!(op, COp::Avail(_)) {
                if c0 != &content {
                    return Err(("repeat-differs".into(), format!("step {step}: repeated {op:?} returned {content:?}, first time {c0:?}")));
                }
                if *a0 != addr {
                    return Err(("repeat-moved".into(), format!("step {step}: repeated {op:?} returned a different address")));
                }
                if after != before {
                    return Err(("repeat-calls-provider".into(), format!("step {step}: repeated {op:?} consulted the provider again: {:?}", &log.borrow()[before..])));
                }
            }
        } else {
            seen.insert(*op, (content, addr));
        }
    }
    // never the same get_candidates / get_dependencies twice
    let l = log.borrow();
    let mut c = HashSet::new();
    let mut d = HashSet::new();
    for e in l.iter() {
        match e {
            Ev::Cands(n) if !c.insert(*n) => return Err(("provider-asked-twice".into(), format!("get_candidates({n}) twice"))),
            Ev::Deps(s) if !d.insert(*s) => return Err(("provider-asked-twice".into(), format!("get_dependencies({s}) twice"))),
            _ => {}
        }
    }
    Ok(())
}

pub fn check_c20(case: &Case, depth: usize, order: (usize, u64, u32), acc: &mut Acc) {
    let ops = c20_alphabet(&case.u);
    // all sequences of length == depth (shorter ones are prefixes and checked step by step)
    let n = ops.len();
    let total = (n as u64).pow(depth as u32);
    for k in 0..total {
        let mut x = k;
        let hist: Vec<COp> = (0..depth)
            .map(|_| {
                let o = ops[(x % n as u64) as usize];
                x /= n as u64;
                o
            })
            .collect();
        acc.evaluations += 1;
        if let Err((sig, what)) = c20_build(case, &hist) {
            acc.violation(viol(
                "C20",
                &sig,
                what,
                json!({"kind": "c20", "case": case, "history": hist, "universe": case.u.describe(&case.p)}),
                order,
            ));
            break;
        }
    }
    acc.add("call_sequences", total);
    // the same with a provider whose filter_candidates answers in reverse listing order (shorter sequences)
    {
        let d2 = depth.min(2);
        let total2 = (n as u64).pow(d2 as u32);
        for k in 0..total2 {
            let mut x = k;
            let hist: Vec<COp> = (0..d2)
                .map(|_| {
                    let o = ops[(x % n as u64) as usize];
                    x /= n as u64;
                    o
                })
                .collect();
            acc.evaluations += 1;
            if let Err((sig, what)) = c20_build_with(case, &hist, true) {
                acc.violation(viol(
                    "C20",
                    &format!("{sig}:reversed-filter"),
                    format!("{what} (filter_candidates answers in reverse listing order)"),
                    json!({"kind": "c20", "case": case, "history": hist, "filter_reversed": true, "universe": case.u.describe(&case.p)}),
                    order,
                ));
                break;
            }
        }
        acc.add("call_sequences", total2);
    }
    // an interrupted query must leave nothing wrong behind: every operation, cancelled at each of its
    // polls, followed by every operation
    {
        let mut n_cancel = 0u64;
        'outer: for &op1 in &ops {
            // number of polls op1 makes on a fresh cache
            let polls = {
                let mut prov = Prov::new(&case.u);
                prov.logging = false;
                let cache = SolverCache::new(prov);
                let _ = c20_raw(&cache, op1);
                cache.provider().polls.get()
            };
            for k in 0..polls {
                for &op2 in &ops {
                    acc.evaluations += 1;
                    n_cancel += 1;
                    if let Err((sig, what)) = c20_build_full(case, &[op2], false, Some((op1, k))) {
                        acc.violation(viol(
                            "C20",
                            &format!("{sig}:after-cancelled-query"),
                            format!("{what} (after {op1:?} was cancelled at its poll {k})"),
                            json!({"kind": "c20", "case": case, "history": [op2], "cancelled_first": {"op": op1, "poll": k}, "universe": case.u.describe(&case.p)}),
                            order,
                        ));
                        break 'outer;
                    }
                }
            }
        }
        acc.add("call_sequences_after_a_cancelled_query", n_cancel);
    }
    acc.mark_nontrivial(case_hash(case));
    // re-entrant use from inside sort_candidates during a full solve
    for cb in [SortCallback::DepsOfSorted, SortCallback::CandsOfMentioned] {
        let base = run_case(&case.u, &case.p, &RunCfg::default());
        let mut cfg = RunCfg::default();
        cfg.sort_cb = cb;
        cfg.log = true;
        let res = run_case(&case.u, &case.p, &cfg);
        acc.evaluations += 1;
        acc.count("solves_with_reentrant_sort");
        if matches!(base.outcome, Outcome::Panic(_)) {
            continue;
        }
        let detail = json!({"kind": "c20-solve", "case": case, "sort_callback": format!("{cb:?}"), "universe": case.u.describe(&case.p), "outcome": res.outcome.short(), "plain": base.outcome.short()});
        if res.outcome.short() != base.outcome.short() {
            // the extra fetches make more solvables "available", which may legitimately change nothing but timing;
            // the verdict must be the same and a solution must stay valid
            let same_verdict = base.outcome.is_ok() == res.outcome.is_ok() && !matches!(res.outcome, Outcome::Panic(_));
            if !same_verdict {
                acc.violation(viol("C20", "reentrant-verdict", format!("cache use from inside sort_candidates changes the result: {} vs {}", res.outcome.short(), base.outcome.short()), detail.clone(), order));
            }
        }
        if let Outcome::Ok(sol) = &res.outcome {
            let sem = Sem::new(&case.u, &case.p);
            if let Err(rule) = sem.check_valid(&sem.sel_of(sol), &case.p.soft) {
                acc.violation(viol("C20", "reentrant-invalid", format!("solution with re-entrant sort violates {rule:?}"), detail.clone(), order));
            }
        }
        let mut c = HashSet::new();
        let mut d = HashSet::new();
        for e in &res.log {
            match e {
                Ev::Cands(n) if !c.insert(*n) => acc.violation(viol("C20", "provider-asked-twice", format!("get_candidates({n}) twice during a solve with re-entrant sort"), detail.clone(), order)),
                Ev::Deps(s) if !d.insert(*s) => acc.violation(viol("C20", "provider-asked-twice", format!("get_dependencies({s}) twice during a solve with re-entrant sort"), detail.clone(), order)),
                _ => {}
            }
        }
    }
    // ... and under every completion order of the provider's answers: requests issued from inside
    // sort_candidates race with the solver's own requests for the same metadata
    for cb in [SortCallback::DepsOfSorted, SortCallback::CandsOfMentioned] {
        let plan = crate::e2::AsyncPlan { sort_cb: cb, hint_mask: None, mask: K_CANDS | K_DEPS, pairs: false, hint: None, complete_cap: 200, dev_bound: 1, dev_cap: 200 };
        crate::e2::check_c10_c11("C20", case, &plan, order, acc);
    }
    acc.sample(|| json!({"universe": case.u.describe(&case.p), "alphabet": format!("{ops:?}"), "depth": depth}));
}

/// The sorted candidates of a union requirement must come out in the listed member order whatever
/// order the provider's answers complete in (every completion order, controlled executor).
pub fn check_c20_async_union(case: &Case, order: (usize, u64, u32), acc: &mut Acc) {
    use crate::sched::{explore, Controller, CtlRuntime, Policy};
    use resolvo::runtime::AsyncRuntime;
    let sem = Sem::new(&case.u, &case.p);
    for un in 0..case.u.unions.len() as Id {
        let req = Req::Union(un);
        let want = sem.req_sorted(req);
        let st = explore(None, 3000, |prefix| {
            let ctl = Controller::new(prefix.to_vec(), Policy::Fifo, false);
            let mut prov = Prov::new(&case.u);
            prov.logging = false;
            prov.ctl = Some(ctl.clone());
            prov.mask = K_CANDS | K_FILTER | K_SORT;
            let cache = SolverCache::new(prov);
            let rt = CtlRuntime(ctl.clone());
            let got: Vec<u32> = match rt.block_on(cache.get_or_cache_sorted_candidates(to_req(req))) {
                Ok(c) => c.iter().map(|s| s.0).collect(),
                Err(_) => vec![u32::MAX],
            };
            acc.evaluations += 1;
            if got != want {
                acc.violation(viol(
                    "C20",
                    "sorted:completion-order",
                    format!("sorted candidates of union {un} = {got:?} under completion order {prefix:?}, expected {want:?}"),
                    json!({"kind": "c20-async", "case": case, "union": un, "schedule": prefix, "universe": case.u.describe(&case.p)}),
                    order,
                ));
            }
            let t = ctl.trace.borrow().clone();
            Ok(t)
        });
        if let Ok(st) = st {
            acc.add("union_queries_schedules", st.runs);
        }
    }
}


/// Requests that are in flight (or were abandoned) on a bare SolverCache: the availability query must
/// stay "hinted or already fetched" while a request is pending and after its future was dropped, a
/// second caller must share the pending request instead of asking the provider again, and an
/// abandoned request must not block or poison later ones. Every step is taken by hand (the futures
/// are polled with a no-op waker, the provider's answers are released one at a time).
pub fn check_c20_inflight(case: &Case, order: (usize, u64, u32), acc: &mut Acc) {
    use crate::sched::{Controller, Policy};
    use std::future::Future;
    use std::task::{Context, Poll};
    let u = &case.u;
    let waker = futures::task::noop_waker();
    let bad = |acc: &mut Acc, sig: &str, what: String| {
        acc.violation(viol("C20", sig, what, json!({"kind": "c20-inflight", "case": case, "universe": case.u.describe(&case.p)}), order));
    };
    // scenario x subject: 0 complete, 1 drop then ask again, 2 a second caller joins while pending
    for scenario in 0..3 {
        for s in 0..u.solvs.len() as Id {
            let ctl = Controller::new(vec![], Policy::Fifo, false);
            let mut prov = Prov::new(u);
            prov.ctl = Some(ctl.clone());
            prov.mask = K_CANDS | K_DEPS;
            let log = prov.log.clone();
            let cache = SolverCache::new(prov);
            let mut cx = Context::from_waker(&waker);
            acc.evaluations += 1;
            acc.count("inflight_scenarios");
            let deps_calls = |log: &std::rc::Rc<std::cell::RefCell<Vec<Ev>>>| log.borrow().iter().filter(|e| matches!(**e, Ev::Deps(x) if x == s)).count();
            let mut f1 = Box::pin(cache.get_or_cache_dependencies(SolvableId(s)));
            if f1.as_mut().poll(&mut cx).is_ready() {
                bad(acc, "inflight:not-parked", format!("get_or_cache_dependencies({s}) completed although the provider has not answered"));
                continue;
            }
            if cache.are_dependencies_available_for(SolvableId(s)) {
                bad(acc, "availability:in-flight", format!("are_dependencies_available_for({s}) is true while the first request for its dependencies is still pending (package not fetched, so not hinted)"));
            }
            match scenario {
                0 => {
                    ctl.release_at(0);
                    match f1.as_mut().poll(&mut cx) {
                        Poll::Ready(Ok(_)) => {}
                        _ => bad(acc, "inflight:not-completed", format!("get_or_cache_dependencies({s}) did not complete after the provider answered")),
                    }
                    if !cache.are_dependencies_available_for(SolvableId(s)) {
                        bad(acc, "availability:fetched", format!("are_dependencies_available_for({s}) is false after its dependencies were fetched"));
                    }
                }
                1 => {
                    drop(f1);
                    if cache.are_dependencies_available_for(SolvableId(s)) {
                        bad(acc, "availability:abandoned", format!("are_dependencies_available_for({s}) is true although the only request for its dependencies was dropped before the provider answered"));
                    }
                    let mut f2 = Box::pin(cache.get_or_cache_dependencies(SolvableId(s)));
                    let mut done = f2.as_mut().poll(&mut cx).is_ready();
                    let mut steps = 0;
                    while !done && steps < 4 {
                        if !ctl.release_at(0) {
                            break;
                        }
                        done = f2.as_mut().poll(&mut cx).is_ready();
                        steps += 1;
                    }
                    if !done {
                        bad(acc, "inflight:blocked-by-abandoned", format!("after an abandoned request, get_or_cache_dependencies({s}) never completes"));
                    } else if !cache.are_dependencies_available_for(SolvableId(s)) {
                        bad(acc, "availability:fetched", format!("are_dependencies_available_for({s}) is false after its dependencies were fetched"));
                    }
                }
                _ => {
                    let mut f2 = Box::pin(cache.get_or_cache_dependencies(SolvableId(s)));
                    if f2.as_mut().poll(&mut cx).is_ready() {
                        bad(acc, "inflight:not-parked", format!("second get_or_cache_dependencies({s}) completed although the provider has not answered"));
                    }
                    if deps_calls(&log) != 1 {
                        bad(acc, "provider-asked-twice:in-flight", format!("get_dependencies({s}) was called {} times for two concurrent cache queries", deps_calls(&log)));
                    }
                    ctl.release_at(0);
                    let a = f1.as_mut().poll(&mut cx);
                    let b = f2.as_mut().poll(&mut cx);
                    match (a, b) {
                        (Poll::Ready(Ok(x)), Poll::Ready(Ok(y))) => {
                            if !std::ptr::eq(x, y) {
                                bad(acc, "inflight:different-answers", format!("two concurrent queries for the dependencies of {s} returned different objects"));
                            }
                        }
                        _ => {
                            // the second may need the (wrongly issued) second provider answer
                            bad(acc, "inflight:waiter-not-woken", format!("after the provider answered, a concurrent query for the dependencies of {s} is still pending"));
                        }
                    }
                }
            }
        }
        for n in 0..u.names.len() as Id {
            let ctl = Controller::new(vec![], Policy::Fifo, false);
            let mut prov = Prov::new(u);
            prov.ctl = Some(ctl.clone());
            prov.mask = K_CANDS | K_DEPS;
            let log = prov.log.clone();
            let cache = SolverCache::new(prov);
            let mut cx = Context::from_waker(&waker);
            acc.evaluations += 1;
            acc.count("inflight_scenarios");
            let cands: Vec<Id> = u.names[n as usize].cands.clone();
            let all_of_name: Vec<Id> = (0..u.solvs.len() as Id).filter(|&s| u.solvs[s as usize].name == n).collect();
            let mut f1 = Box::pin(cache.get_or_cache_candidates(NameId(n)));
            if f1.as_mut().poll(&mut cx).is_ready() {
                bad(acc, "inflight:not-parked", format!("get_or_cache_candidates({n}) completed although the provider has not answered"));
                continue;
            }
            for &s in &all_of_name {
                if cache.are_dependencies_available_for(SolvableId(s)) {
                    bad(acc, "availability:in-flight", format!("are_dependencies_available_for({s}) is true before the candidates of its package have arrived"));
                }
            }
            let finish = |acc: &mut Acc, cache: &SolverCache<Prov>| {
                for &s in &all_of_name {
                    let want = is_hinted(u, s);
                    if cache.are_dependencies_available_for(SolvableId(s)) != want {
                        bad(acc, "availability", format!("are_dependencies_available_for({s}) = {} after the candidates arrived, hinted = {want}", !want));
                    }
                }
            };
            match scenario {
                0 => {
                    ctl.release_at(0);
                    match f1.as_mut().poll(&mut cx) {
                        Poll::Ready(Ok(c)) => {
                            if c.candidates.iter().map(|s| s.0).collect::<Vec<_>>() != cands {
                                bad(acc, "candidates", format!("candidates of {n} differ from the provider's list"));
                            }
                        }
                        _ => bad(acc, "inflight:not-completed", format!("get_or_cache_candidates({n}) did not complete after the provider answered")),
                    }
                    finish(acc, &cache);
                }
                1 => {
                    drop(f1);
                    for &s in &all_of_name {
                        if cache.are_dependencies_available_for(SolvableId(s)) {
                            bad(acc, "availability:abandoned", format!("are_dependencies_available_for({s}) is true although the request for its package's candidates was dropped"));
                        }
                    }
                    let mut f2 = Box::pin(cache.get_or_cache_candidates(NameId(n)));
                    let mut done = f2.as_mut().poll(&mut cx).is_ready();
                    let mut steps = 0;
                    while !done && steps < 4 {
                        if !ctl.release_at(0) {
                            break;
                        }
                        done = f2.as_mut().poll(&mut cx).is_ready();
                        steps += 1;
                    }
                    if !done {
                        bad(acc, "inflight:blocked-by-abandoned", format!("after an abandoned request, get_or_cache_candidates({n}) never completes"));
                    } else {
                        finish(acc, &cache);
                    }
                }
                _ => {
                    let mut f2 = Box::pin(cache.get_or_cache_candidates(NameId(n)));
                    if f2.as_mut().poll(&mut cx).is_ready() {
                        bad(acc, "inflight:not-parked", format!("second get_or_cache_candidates({n}) completed although the provider has not answered"));
                    }
                    let calls = log.borrow().iter().filter(|e| matches!(**e, Ev::Cands(x) if x == n)).count();
                    if calls != 1 {
                        bad(acc, "provider-asked-twice:in-flight", format!("get_candidates({n}) was called {calls} times for two concurrent cache queries"));
                    }
                    ctl.release_at(0);
                    let a = f1.as_mut().poll(&mut cx);
                    let b = f2.as_mut().poll(&mut cx);
                    match (a, b) {
                        (Poll::Ready(Ok(x)), Poll::Ready(Ok(y))) => {
                            if !std::ptr::eq(x, y) {
                                bad(acc, "inflight:different-answers", format!("two concurrent queries for the candidates of {n} returned different objects"));
                            }
                        }
                        _ => bad(acc, "inflight:waiter-not-woken", format!("after the provider answered, a concurrent query for the candidates of {n} is still pending")),
                    }
                    finish(acc, &cache);
                }
            }
        }
    }
}


/// C11 on the cache's own union path (`get_or_cache_sorted_candidates(Requirement::Union)`, which
/// providers call from `sort_candidates`): when the query is blocked for the first time, the candidates
/// of every member package must have been requested, not one member after the other.
pub fn check_c11_cache_union(case: &Case, order: (usize, u64, u32), acc: &mut Acc) {
    use crate::sched::{Controller, CtlRuntime, Policy};
    use resolvo::runtime::AsyncRuntime;
    for un in 0..case.u.unions.len() as Id {
        let mut pkgs: Vec<Id> = case.u.unions[un as usize].iter().map(|&v| case.u.vsets[v as usize].name).collect();
        pkgs.sort();
        pkgs.dedup();
        let ctl = Controller::new(vec![], Policy::Fifo, false);
        let mut prov = Prov::new(&case.u);
        prov.ctl = Some(ctl.clone());
        prov.mask = K_CANDS;
        let log = prov.log.clone();
        *ctl.log.borrow_mut() = Some(log.clone());
        let cache = SolverCache::new(prov);
        let rt = CtlRuntime(ctl.clone());
        let r = guarded("cache", || rt.block_on(cache.get_or_cache_sorted_candidates(to_req(Req::Union(un)))).map(|c| c.len()));
        acc.evaluations += 1;
        acc.count("cache_union_queries");
        if r.is_err() {
            acc.violation(viol("C11", "cache-union:did-not-complete", format!("sorted candidates of union {un} on a bare cache did not complete"), json!({"kind": "c11-cache-union", "case": case, "union": un, "universe": case.u.describe(&case.p)}), order));
            continue;
        }
        // parked get_candidates requests at the first quiescent point
        let first = log.borrow().iter().find_map(|e| match e {
            Ev::Quiescent(p) => Some(p.iter().filter(|x| x.0 == K_CANDS).map(|x| x.1).collect::<Vec<_>>()),
            _ => None,
        });
        if let Some(mut parked) = first {
            parked.sort();
            parked.dedup();
            if pkgs.len() >= 2 {
                acc.count("cache_union_queries_over_2+_packages");
            }
            if parked != pkgs {
                acc.violation(viol(
                    "C11",
                    "cache-union:members-serialized",
                    format!("get_or_cache_sorted_candidates(union {un}) is blocked with get_candidates in flight for packages {parked:?} only; the union's members belong to packages {pkgs:?}"),
                    json!({"kind": "c11-cache-union", "case": case, "union": un, "universe": case.u.describe(&case.p)}),
                    order,
                ));
            }
        }
    }
}

/// One package with many candidates: favored rotation and order stability beyond small sizes.
pub fn check_c20_wide(acc: &mut Acc) {
    for n in [5usize, 21, 33, 64] {
        for perm in 0..3 {
            for fav_pos in [0usize, 1, 2, n / 2, n - 2, n - 1] {
                let mut u = Universe::default();
                let a = u.add_name("a");
                let sv: Vec<Id> = (1..=n as u32).map(|v| u.add_solv(a, v)).collect();
                let mut order: Vec<Id> = sv.clone();
                match perm {
                    0 => {}
                    1 => order.reverse(),
                    _ => {
                        // a fixed scramble
                        // multiplier 11 is coprime to 5, 21, 33 and 64: a permutation
                        order = (0..n).map(|i| sv[(i * 11 + 3) % n]).collect::<Vec<_>>();
                    }
                }
                u.set_order(&order);
                u.names[a as usize].favored = Some(order[fav_pos]);
                let all = u.add_vset(a, &sv);
                let most: Vec<Id> = sv.iter().copied().filter(|s| s % 5 != 0).collect();
                let vs_most = u.add_vset(a, &most);
                let case = Case { u, p: Problem { reqs: vec![Req::Single(all)], cons: vec![], soft: vec![] }, tag: format!("wide n={n}") };
                for hist in [vec![COp::Sorted(Req::Single(all))], vec![COp::Matching(vs_most), COp::Sorted(Req::Single(vs_most)), COp::Sorted(Req::Single(all))]] {
                    acc.evaluations += 1;
                    acc.count("wide_package_queries");
                    if let Err((sig, what)) = c20_build(&case, &hist) {
                        acc.violation(viol("C20", &format!("{sig}:wide"), format!("{what} (one package with {n} candidates, favored at sorted position {fav_pos})"), json!({"kind": "c20", "case": case, "history": hist}), (50, n as u64, fav_pos as u32)));
                    }
                }
            }
        }
    }
}

pub fn run_c20(ctx: &Ctx) -> i32 {
    let q = ctx.tier == Tier::Quick;
    let depth = if q { 3 } else { 4 };
    let mut rep = Report::new(
        "model_checking",
        "for every universe of the listed families, every sequence (length = depth) of get_or_cache_candidates / matching / non_matching / sorted (single + union) / dependencies / are_dependencies_available_for calls over a per-universe alphabet is replayed on a fresh bare SolverCache and every answer compared with the reference (filter, rank order, favored rotation, availability rule, same address, no provider call on repeats); plus full solves with a sort_candidates that calls back into the cache; non-trivial = every distinct universe",
    );
    let deco = |d: &Deco| matches!(d, Deco::Favor(_) | Deco::Hint(..) | Deco::Exclude(..) | Deco::AddReq(_, VsSpec::Empty(_)) | Deco::AddReq(_, VsSpec::Missing) | Deco::AddUnion(..) | Deco::Unknown(_));
    // (family, stride, depth of the call sequences). Thorough: all universes with <= 1 decoration at
    // depth 4, those with <= 2 decorations at depth 2 (sized so that the tier finishes in about an hour)
    let mut fams: Vec<(Box<dyn Family>, u64, usize)> = vec![
        (Box::new(Decorated::new("F3 skeletons", skeletons(), 1, false, &deco)), if q { 2 } else { 1 }, depth),
        (crate::plans::f4(&ctx.tier), if q { 4001 } else { 997 }, depth),
    ];
    if !q {
        fams.push((Box::new(Decorated::new("F3 skeletons", skeletons(), 2, false, &deco)), 1, 2));
    }
    let mut states = 0;
    let mut transitions = 0;
    for (fi, (fam, stride, depth)) in fams.iter().enumerate() {
        let depth = *depth;
        let opts = SweepOpts {
            threads: threads(),
            wall_limit_s: 600,
            on_stuck: Box::new(|_, idx| { eprintln!("MACHINERY ERROR: C20 stuck at {idx}"); None }),
            fam_no: fi,
            stride: *stride,
            offset: if *stride > 1 { ctx.seed % *stride } else { 0 },
        };
        let acc = sweep(&**fam, &opts, &|idx, case, acc| {
            if case.u.well_formed(&case.p).is_err() {
                return;
            }
            acc.count("cases");
            // a panic of SolverCache code reached from the harness (not through Solver::solve) is a verdict
            let guard = |what: &str, case: &Case, order: (usize, u64, u32), acc: &mut Acc, f: &dyn Fn(&Case, &mut Acc)| {
                if let Err(Err(pi)) = guarded("cache", || f(case, acc)) {
                    acc.violation(viol("C20", &format!("panic:{}", pi.site), format!("{what}: SolverCache panicked: {} at {}", pi.msg, pi.site), json!({"kind": "c20-guarded", "what": what, "case": case, "universe": case.u.describe(&case.p)}), order));
                }
            };
            guard("call sequences", case, (fi, idx, 0), acc, &|c, a| check_c20(c, depth, (fi, idx, 0), a));
            // the same universe with every package answering hints = All (two hinted packages fetched
            // in either order)
            let mut hinted = case.clone();
            for n in hinted.u.names.iter_mut() {
                if !n.missing {
                    n.hint = Hint::All;
                }
            }
            if hinted.u != case.u {
                acc.count("cases");
                guard("call sequences", &hinted, (fi, idx, 1), acc, &|c, a| check_c20(c, depth, (fi, idx, 1), a));
            }
            // ... and with every package answering an empty hint list (no solvable is hinted)
            let mut unhinted = case.clone();
            for n in unhinted.u.names.iter_mut() {
                if !n.missing {
                    n.hint = Hint::Some(vec![]);
                }
            }
            if unhinted.u != case.u {
                acc.count("cases");
                guard("call sequences", &unhinted, (fi, idx, 5), acc, &|c, a| check_c20(c, depth.min(2), (fi, idx, 5), a));
            }
            if !case.u.unions.is_empty() {
                guard("union under completion orders", case, (fi, idx, 2), acc, &|c, a| check_c20_async_union(c, (fi, idx, 2), a));
            }
            guard("in-flight requests", case, (fi, idx, 3), acc, &|c, a| check_c20_inflight(c, (fi, idx, 3), a));
            if hinted.u != case.u {
                guard("in-flight requests", &hinted, (fi, idx, 4), acc, &|c, a| check_c20_inflight(c, (fi, idx, 4), a));
            }
        });
        states += acc.get("cases");
        transitions += acc.get("call_sequences");
        eprintln!("[C20] {}: {} universes, {} call sequences, {:.1}s", fam.name(), acc.get("cases"), acc.get("call_sequences"), ctx.t0.elapsed().as_secs_f64());
        rep.push(&format!("{}{}", fam.name(), if *stride > 1 { format!(" (every {stride}th index)") } else { String::new() }), acc, *stride == 1, fam.len());
    }
    {
        let mut acc = Acc::default();
        check_c20_wide(&mut acc);
        acc.finalize();
        transitions += acc.evaluations;
        rep.push("one package with 5/21/33/64 candidates x favored position x 3 preference orders", acc, true, 0);
    }
    rep.extra.insert("states".into(), json!(states));
    rep.extra.insert("transitions".into(), json!(transitions));
    rep.extra.insert("traces_validated_against_impl".into(), json!(transitions));
    rep.extra.insert("depth".into(), json!(depth));
    rep.require(transitions > 1000, "too few call sequences");
    rep.finish(ctx)
}

pub fn replay_c20(v: &serde_json::Value) -> Vec<String> {
    let case: Case = serde_json::from_value(v["case"].clone()).expect("case");
    if v["kind"] == "c20-async" {
        let mut acc = Acc::default();
        check_c20_async_union(&case, (0, 0, 0), &mut acc);
        return acc.violations.iter().map(|v| v.signature.clone()).collect();
    }
    if v["kind"] == "c11-cache-union" {
        let mut acc = Acc::default();
        check_c11_cache_union(&case, (0, 0, 0), &mut acc);
        return acc.violations.iter().map(|v| v.signature.clone()).collect();
    }
    if v["kind"] == "c20-guarded" {
        let mut acc = Acc::default();
        let r = guarded("cache", || {
            check_c20(&case, 2, (0, 0, 0), &mut acc);
            if !case.u.unions.is_empty() {
                check_c20_async_union(&case, (0, 0, 0), &mut acc);
            }
            check_c20_inflight(&case, (0, 0, 0), &mut acc);
        });
        let mut sigs: Vec<String> = acc.violations.iter().map(|v| v.signature.clone()).collect();
        if let Err(Err(pi)) = r {
            sigs.push(format!("panic:{}", pi.site));
        }
        return sigs;
    }
    if v["kind"] == "c20-inflight" {
        let mut acc = Acc::default();
        check_c20_inflight(&case, (0, 0, 0), &mut acc);
        return acc.violations.iter().map(|v| v.signature.clone()).collect();
    }
    if v["kind"] == "c20" {
        let hist: Vec<COp> = serde_json::from_value(v["history"].clone()).expect("history");
        let pre: Option<(COp, u32)> = match (&v["cancelled_first"]["op"], v["cancelled_first"]["poll"].as_u64()) {
            (op, Some(k)) if !op.is_null() => serde_json::from_value(op.clone()).ok().map(|o| (o, k as u32)),
            _ => None,
        };
        match c20_build_full(&case, &hist, v["filter_reversed"] == true, pre) {
            Ok(_) => vec![],
            Err((sig, _)) => vec![sig],
        }
    } else {
        let mut acc = Acc::default();
        check_c20(&case, 1, (0, 0, 0), &mut acc);
        acc.violations.iter().map(|v| v.signature.clone()).collect()
    }
}
