//! Families of universes (what "all universes" means, concretely). Every
//! family is a finite indexable set: `len()` instances, `get(i)` builds the
//! i-th. Shards are index ranges, so reports are deterministic.

use std::collections::HashMap;

use crate::universe::*;

pub trait Family: Sync + Send {
    fn name(&self) -> String;
    fn len(&self) -> u64;
    fn get(&self, idx: u64) -> Case;
}

// ---------------------------------------------------------------------------
// mini: textual builder used for skeletons and oracle self-checks
// ---------------------------------------------------------------------------

/// packages: (name, version, deps) where a dep is
///   "b 1|2" requirement on b{1,2}; "b *" any listed version; "b none" the empty set;
///   "!b 1" constrains; "b 1 || c *" a union requirement.
/// A package name that never appears as a package is a *missing* package.
pub fn mini(
    packages: &[(&str, u32, &[&str])],
    root_reqs: &[&str],
    root_cons: &[&str],
) -> (Universe, Problem, HashMap<String, Id>) {
    let mut u = Universe::default();
    let mut ids = HashMap::new();
    let mut names: HashMap<String, Id> = HashMap::new();
    for (n, v, _) in packages {
        let nid = *names.entry(n.to_string()).or_insert_with(|| u.add_name(n));
        let s = u.add_solv(nid, *v);
        ids.insert(format!("{n}={v}"), s);
    }
    fn vs_of(u: &mut Universe, names: &mut HashMap<String, Id>, spec: &str) -> Id {
        let mut it = spec.split_whitespace();
        let n = it.next().unwrap();
        let sel = it.next().unwrap_or("*");
        let nid = match names.get(n) {
            Some(&x) => x,
            None => {
                let x = u.add_missing_name(n);
                names.insert(n.to_string(), x);
                x
            }
        };
        let cands = u.names[nid as usize].cands.clone();
        let members: Vec<Id> = match sel {
            "*" => cands,
            "none" => vec![],
            s => {
                let vers: Vec<u32> = s.split('|').map(|x| x.parse().unwrap()).collect();
                cands
                    .into_iter()
                    .filter(|&c| vers.contains(&u.solvs[c as usize].version))
                    .collect()
            }
        };
        u.vset(nid, &members)
    }
    fn req_of(u: &mut Universe, names: &mut HashMap<String, Id>, spec: &str) -> Req {
        if spec.contains("||") {
            let members: Vec<Id> = spec.split("||").map(|s| vs_of(u, names, s.trim())).collect();
            Req::Union(u.add_union(&members))
        } else {
            Req::Single(vs_of(u, names, spec))
        }
    }
    for (i, (_, _, deps)) in packages.iter().enumerate() {
        for d in deps.iter() {
            if let Some(c) = d.strip_prefix('!') {
                let v = vs_of(&mut u, &mut names, c);
                u.solvs[i].deps.push_con(v);
            } else {
                let r = req_of(&mut u, &mut names, d);
                u.solvs[i].deps.push_req(r);
            }
        }
    }
    let mut p = Problem::default();
    for r in root_reqs {
        let r = req_of(&mut u, &mut names, r);
        p.reqs.push(r);
    }
    for c in root_cons {
        let v = vs_of(&mut u, &mut names, c);
        p.cons.push(v);
    }
    for (n, id) in names {
        ids.insert(n, id);
    }
    (u, p, ids)
}

// ---------------------------------------------------------------------------
// Grid families (F1, F1cyc, F1', F4 base)
// ---------------------------------------------------------------------------

#[derive(Clone)]
pub enum RootMenu {
    /// per name: none or any non-empty version subset; not all none
    Full,
    /// per name: none or all versions; not all none
    AnyVersion,
    /// explicit list of per-name masks
    List(Vec<Vec<u32>>),
}

#[derive(Clone)]
pub struct Grid {
    pub label: String,
    pub n_names: usize,
    pub n_vers: usize,
    /// per source name: the names its solvables may require
    pub edges: Vec<Vec<usize>>,
    pub root: RootMenu,
    /// per (src name, dst name) a fixed mask instead of a free choice
    pub fixed: Vec<(usize, usize, u32)>,
}

const LABELS: [&str; 6] = ["a", "b", "c", "d", "e", "f"];

impl Grid {
    pub fn f1() -> Grid {
        Grid {
            label: "F1 layered 3x2".into(),
            n_names: 3,
            n_vers: 2,
            edges: vec![vec![1, 2], vec![2], vec![]],
            root: RootMenu::Full,
            fixed: vec![],
        }
    }
    pub fn f1_cyclic() -> Grid {
        Grid {
            label: "F1cyc cyclic 3x2".into(),
            n_names: 3,
            n_vers: 2,
            edges: vec![vec![1, 2], vec![0, 2], vec![0, 1]],
            root: RootMenu::AnyVersion,
            fixed: vec![],
        }
    }
    pub fn f1_prime() -> Grid {
        Grid {
            label: "F1' layered 4x2".into(),
            n_names: 4,
            n_vers: 2,
            edges: vec![vec![1, 2, 3], vec![2, 3], vec![3], vec![]],
            root: RootMenu::List(vec![
                vec![3, 0, 0, 0],
                vec![3, 3, 0, 0],
                vec![3, 0, 0, 3],
                vec![3, 3, 3, 3],
            ]),
            fixed: vec![],
        }
    }
    pub fn with_root(mut self, r: RootMenu) -> Grid {
        self.root = r;
        self
    }
    pub fn with_fixed(mut self, f: Vec<(usize, usize, u32)>) -> Grid {
        self.fixed = f;
        self
    }
    fn opts(&self) -> u64 {
        1u64 << self.n_vers
    }
    fn root_count(&self) -> u64 {
        match &self.root {
            RootMenu::Full => self.opts().pow(self.n_names as u32) - 1,
            RootMenu::AnyVersion => (1u64 << self.n_names) - 1,
            RootMenu::List(l) => l.len() as u64,
        }
    }
    fn is_fixed(&self, src: usize, dst: usize) -> Option<u32> {
        self.fixed
            .iter()
            .find(|f| f.0 == src && f.1 == dst)
            .map(|f| f.2)
    }
    fn free_slots(&self) -> u32 {
        let mut n = 0;
        for (src, dsts) in self.edges.iter().enumerate() {
            for &d in dsts {
                if self.is_fixed(src, d).is_none() {
                    n += self.n_vers as u32;
                }
            }
        }
        n
    }
    pub fn vs_id(&self, name: usize, mask: u32) -> Id {
        debug_assert!(mask >= 1);
        (name as u64 * (self.opts() - 1) + (mask as u64 - 1)) as Id
    }
    pub fn solv_id(&self, name: usize, ver: usize) -> Id {
        (name * self.n_vers + (ver - 1)) as Id
    }
    /// the universe without any dependency
    pub fn base(&self) -> Universe {
        let mut u = Universe::default();
        for n in 0..self.n_names {
            u.add_name(LABELS[n]);
        }
        for n in 0..self.n_names {
            for v in 1..=self.n_vers {
                u.add_solv(n as Id, v as u32);
            }
        }
        for n in 0..self.n_names {
            for mask in 1..self.opts() as u32 {
                let members: Vec<Id> = (1..=self.n_vers)
                    .filter(|v| mask & (1 << (v - 1)) != 0)
                    .map(|v| self.solv_id(n, v))
                    .collect();
                u.add_vset(n as Id, &members);
            }
        }
        u
    }
    pub fn build(&self, mut idx: u64) -> Case {
        let mut u = self.base();
        let rc = self.root_count();
        let ri = idx % rc;
        idx /= rc;
        let o = self.opts();
        for (src, dsts) in self.edges.iter().enumerate() {
            for v in 1..=self.n_vers {
                let s = self.solv_id(src, v);
                for &d in dsts {
                    let mask = match self.is_fixed(src, d) {
                        Some(m) => m,
                        None => {
                            let m = (idx % o) as u32;
                            idx /= o;
                            m
                        }
                    };
                    if mask != 0 {
                        let vs = self.vs_id(d, mask);
                        u.solvs[s as usize].deps.push_req(Req::Single(vs));
                    }
                }
            }
        }
        let masks: Vec<u32> = match &self.root {
            RootMenu::Full => {
                let mut x = ri + 1;
                (0..self.n_names)
                    .map(|_| {
                        let m = (x % o) as u32;
                        x /= o;
                        m
                    })
                    .collect()
            }
            RootMenu::AnyVersion => {
                let x = ri + 1;
                (0..self.n_names)
                    .map(|n| if x & (1 << n) != 0 { (o - 1) as u32 } else { 0 })
                    .collect()
            }
            RootMenu::List(l) => l[ri as usize].clone(),
        };
        let mut p = Problem::default();
        for (n, &m) in masks.iter().enumerate() {
            if m != 0 {
                p.reqs.push(Req::Single(self.vs_id(n, m)));
            }
        }
        Case {
            u,
            p,
            tag: String::new(),
        }
    }
}

impl Family for Grid {
    fn name(&self) -> String {
        self.label.clone()
    }
    fn len(&self) -> u64 {
        self.root_count() * self.opts().pow(self.free_slots())
    }
    fn get(&self, idx: u64) -> Case {
        let mut c = self.build(idx);
        c.tag = format!("{}#{}", self.label, idx);
        c
    }
}

// ---------------------------------------------------------------------------
// Decorations
// ---------------------------------------------------------------------------

#[derive(Clone, Copy, Debug, PartialEq, Eq, Hash, serde::Serialize, serde::Deserialize)]
pub enum Src {
    Root,
    Solv(Id),
}

#[derive(Clone, Debug, PartialEq, Eq, Hash, serde::Serialize, serde::Deserialize)]
pub enum VsSpec {
    /// an existing version set id
    Id(Id),
    /// the empty version set of a package
    Empty(Id),
    /// a version set of a missing package
    Missing,
}

#[derive(Clone, Debug, PartialEq, Eq, Hash, serde::Serialize, serde::Deserialize)]
pub enum HintSpec {
    All,
    Some(Vec<Id>),
}

#[derive(Clone, Debug, PartialEq, Eq, Hash, serde::Serialize, serde::Deserialize)]
pub enum Deco {
    AddReq(Src, VsSpec),
    AddUnion(Src, Vec<VsSpec>),
    AddCons(Src, VsSpec),
    /// (solvable, keep it in the candidate list)
    Exclude(Id, bool),
    Unknown(Id),
    Lock(Id),
    Favor(Id),
    Hint(Id, HintSpec),
    Soft(Id),
}

impl Deco {
    pub fn kind(&self) -> &'static str {
        match self {
            Deco::AddReq(_, VsSpec::Missing) => "req-missing",
            Deco::AddReq(_, VsSpec::Empty(_)) => "req-empty",
            Deco::AddReq(..) => "req",
            Deco::AddUnion(..) => "union",
            Deco::AddCons(Src::Root, _) => "root-constraint",
            Deco::AddCons(..) => "constrains",
            Deco::Exclude(..) => "exclude",
            Deco::Unknown(_) => "unknown",
            Deco::Lock(_) => "lock",
            Deco::Favor(_) => "favor",
            Deco::Hint(..) => "hint",
            Deco::Soft(_) => "soft",
        }
    }
}

fn resolve_vs(u: &mut Universe, v: &VsSpec) -> Id {
    match v {
        VsSpec::Id(i) => *i,
        VsSpec::Empty(n) => u.vset(*n, &[]),
        VsSpec::Missing => {
            let n = match u.names.iter().position(|n| n.missing) {
                Some(i) => i as Id,
                None => u.add_missing_name("m"),
            };
            u.vset(n, &[])
        }
    }
}

pub fn apply(u: &mut Universe, p: &mut Problem, d: &Deco) {
    match d {
        Deco::AddReq(src, v) => {
            let vs = resolve_vs(u, v);
            match src {
                Src::Root => p.reqs.push(Req::Single(vs)),
                Src::Solv(s) => u.solvs[*s as usize].deps.push_req(Req::Single(vs)),
            }
        }
        Deco::AddUnion(src, vs) => {
            let members: Vec<Id> = vs.iter().map(|v| resolve_vs(u, v)).collect();
            let un = u.add_union(&members);
            match src {
                Src::Root => p.reqs.push(Req::Union(un)),
                Src::Solv(s) => u.solvs[*s as usize].deps.push_req(Req::Union(un)),
            }
        }
        Deco::AddCons(src, v) => {
            let vs = resolve_vs(u, v);
            match src {
                Src::Root => p.cons.push(vs),
                Src::Solv(s) => u.solvs[*s as usize].deps.push_con(vs),
            }
        }
        Deco::Exclude(s, keep) => {
            let n = u.solvs[*s as usize].name as usize;
            let r = u.add_string("excluded for a reason");
            if !u.names[n].excluded.iter().any(|e| e.0 == *s) {
                u.names[n].excluded.push((*s, r));
            }
            if !*keep {
                u.names[n].cands.retain(|c| c != s);
                if u.names[n].favored == Some(*s) {
                    u.names[n].favored = None;
                }
                if u.names[n].locked == Some(*s) {
                    u.names[n].locked = None;
                }
                if let Hint::Some(h) = &mut u.names[n].hint {
                    h.retain(|c| c != s);
                }
                p.soft.retain(|c| c != s);
            }
        }
        Deco::Unknown(s) => {
            let r = u.add_string("dependencies unknown");
            u.solvs[*s as usize].deps = Deps::Unknown(r);
        }
        Deco::Lock(s) => {
            let n = u.solvs[*s as usize].name as usize;
            if u.names[n].cands.contains(s) {
                u.names[n].locked = Some(*s);
            }
        }
        Deco::Favor(s) => {
            let n = u.solvs[*s as usize].name as usize;
            if u.names[n].cands.contains(s) {
                u.names[n].favored = Some(*s);
            }
        }
        Deco::Hint(n, h) => {
            let cands = u.names[*n as usize].cands.clone();
            u.names[*n as usize].hint = match h {
                HintSpec::All => Hint::All,
                HintSpec::Some(v) => {
                    Hint::Some(v.iter().copied().filter(|s| cands.contains(s)).collect())
                }
            };
        }
        Deco::Soft(s) => {
            let n = u.solvs[*s as usize].name as usize;
            if u.names[n].cands.contains(s) {
                p.soft.push(*s);
            }
        }
    }
}

/// The menu of single decorations applicable to a universe. `rich` adds the
/// larger union/constrains menus.
pub fn menu(u: &Universe, rich: bool) -> Vec<Deco> {
    let mut out = vec![];
    let real_names: Vec<Id> = (0..u.names.len() as Id)
        .filter(|&n| !u.names[n as usize].missing && !u.names[n as usize].cands.is_empty())
        .collect();
    let listed: Vec<Id> = real_names
        .iter()
        .flat_map(|&n| u.names[n as usize].cands.clone())
        .collect();
    let mut srcs = vec![Src::Root];
    srcs.extend(listed.iter().map(|&s| Src::Solv(s)));
    // version-set menu per name: every existing vset of that name with >= 1 member, + empty
    let mut vs_by_name: HashMap<Id, Vec<Id>> = HashMap::new();
    for (i, v) in u.vsets.iter().enumerate() {
        if !v.members.is_empty() && real_names.contains(&v.name) {
            vs_by_name.entry(v.name).or_default().push(i as Id);
        }
    }
    let full_vs = |n: Id| -> Option<Id> {
        vs_by_name.get(&n).and_then(|l| {
            l.iter()
                .copied()
                .find(|&v| u.vsets[v as usize].members.len() == u.names[n as usize].cands.len())
        })
    };
    let single_vs = |n: Id, k: usize| -> Option<Id> {
        vs_by_name.get(&n).and_then(|l| {
            l.iter().copied().filter(|&v| u.vsets[v as usize].members.len() == 1).nth(k)
        })
    };
    for &src in &srcs {
        for &n in &real_names {
            for &v in vs_by_name.get(&n).map(|v| v.as_slice()).unwrap_or(&[]) {
                out.push(Deco::AddReq(src, VsSpec::Id(v)));
                // constrains: singletons (+ all subsets when rich)
                if rich || u.vsets[v as usize].members.len() == 1 {
                    out.push(Deco::AddCons(src, VsSpec::Id(v)));
                }
            }
            out.push(Deco::AddReq(src, VsSpec::Empty(n)));
            out.push(Deco::AddCons(src, VsSpec::Empty(n)));
        }
        out.push(Deco::AddReq(src, VsSpec::Missing));
        if rich {
            out.push(Deco::AddCons(src, VsSpec::Missing));
        }
        // unions over ordered pairs of distinct names
        for &y in &real_names {
            for &z in &real_names {
                if y == z {
                    continue;
                }
                if let (Some(fy), Some(fz)) = (full_vs(y), full_vs(z)) {
                    out.push(Deco::AddUnion(src, vec![VsSpec::Id(fy), VsSpec::Id(fz)]));
                    out.push(Deco::AddUnion(src, vec![VsSpec::Empty(y), VsSpec::Id(fz)]));
                }
                if let (Some(sy), Some(sz)) = (single_vs(y, 0), single_vs(z, 1).or(single_vs(z, 0)))
                {
                    out.push(Deco::AddUnion(src, vec![VsSpec::Id(sy), VsSpec::Id(sz)]));
                }
            }
            if rich {
                // same-package union (overlapping members) and union with a missing package
                if let (Some(f), Some(s0)) = (full_vs(y), single_vs(y, 0)) {
                    out.push(Deco::AddUnion(src, vec![VsSpec::Id(s0), VsSpec::Id(f)]));
                }
                if let Some(f) = full_vs(y) {
                    out.push(Deco::AddUnion(src, vec![VsSpec::Missing, VsSpec::Id(f)]));
                }
            }
        }
    }
    for &s in &listed {
        out.push(Deco::Exclude(s, true));
        out.push(Deco::Exclude(s, false));
        out.push(Deco::Unknown(s));
        out.push(Deco::Lock(s));
        out.push(Deco::Favor(s));
        out.push(Deco::Soft(s));
    }
    for &n in &real_names {
        out.push(Deco::Hint(n, HintSpec::All));
        for &c in &u.names[n as usize].cands {
            out.push(Deco::Hint(n, HintSpec::Some(vec![c])));
        }
    }
    out
}

// ---------------------------------------------------------------------------
// Base × ≤k decorations
// ---------------------------------------------------------------------------

fn binom(n: u64, k: u64) -> u64 {
    if k > n {
        return 0;
    }
    let mut r = 1u64;
    for i in 0..k {
        r = r * (n - i) / (i + 1);
    }
    r
}

/// unrank the idx-th k-subset of 0..n in colex order
fn unrank_subset(mut idx: u64, n: u64, k: u64) -> Vec<usize> {
    let mut out = vec![];
    let mut kk = k;
    let mut hi = n;
    while kk > 0 {
        // largest c < hi with binom(c, kk) <= idx
        let mut c = kk - 1;
        while c + 1 < hi && binom(c + 1, kk) <= idx {
            c += 1;
        }
        idx -= binom(c, kk);
        out.push(c as usize);
        hi = c;
        kk -= 1;
    }
    out.reverse();
    out
}

/// A list of base cases, each with every subset of at most `k` decorations of
/// its own menu (deviation-bounded part of the exploration: 0, then 1, 2, .. k).
pub struct Decorated {
    pub label: String,
    pub bases: Vec<Case>,
    pub menus: Vec<Vec<Deco>>,
    pub k: usize,
    /// cumulative sizes per base
    cum: Vec<u64>,
}

impl Decorated {
    pub fn new(label: &str, bases: Vec<Case>, k: usize, rich: bool, filter: &dyn Fn(&Deco) -> bool) -> Self {
        Self::new_with(label, bases, k, rich, &|_, d| filter(d))
    }
    pub fn new_with(label: &str, bases: Vec<Case>, k: usize, rich: bool, filter: &dyn Fn(&Case, &Deco) -> bool) -> Self {
        let menus: Vec<Vec<Deco>> = bases
            .iter()
            .map(|c| menu(&c.u, rich).into_iter().filter(|d| filter(c, d)).collect())
            .collect();
        let mut cum = vec![0u64];
        for m in &menus {
            let n = m.len() as u64;
            let sz: u64 = (0..=k as u64).map(|j| binom(n, j)).sum();
            cum.push(cum.last().unwrap() + sz);
        }
        Decorated {
            label: label.to_string(),
            bases,
            menus,
            k,
            cum,
        }
    }
    pub fn decos_of(&self, idx: u64) -> (usize, Vec<Deco>) {
        let b = match self.cum.binary_search(&idx) {
            Ok(i) => i,
            Err(i) => i - 1,
        };
        let b = b.min(self.bases.len() - 1);
        let mut local = idx - self.cum[b];
        let n = self.menus[b].len() as u64;
        let mut j = 0u64;
        while local >= binom(n, j) {
            local -= binom(n, j);
            j += 1;
        }
        let subset = unrank_subset(local, n, j);
        (b, subset.into_iter().map(|i| self.menus[b][i].clone()).collect())
    }
}

impl Family for Decorated {
    fn name(&self) -> String {
        format!("{} (<= {} decorations)", self.label, self.k)
    }
    fn len(&self) -> u64 {
        *self.cum.last().unwrap()
    }
    fn get(&self, idx: u64) -> Case {
        let (b, decos) = self.decos_of(idx);
        let mut c = self.bases[b].clone();
        for d in &decos {
            apply(&mut c.u, &mut c.p, d);
        }
        c.tag = format!("{}#{}:{}+{:?}", self.label, idx, self.bases[b].tag, decos);
        c
    }
}

/// Grid × exactly one decoration (F2): index = grid index * menu + deco index.
pub struct GridDeco {
    pub grid: Grid,
    pub menu: Vec<Deco>,
}

impl GridDeco {
    pub fn new(grid: Grid, rich: bool, filter: &dyn Fn(&Deco) -> bool) -> Self {
        let m = menu(&grid.base(), rich).into_iter().filter(|d| filter(d)).collect();
        GridDeco { grid, menu: m }
    }
}

impl Family for GridDeco {
    fn name(&self) -> String {
        format!("{} x 1 decoration ({} menu items)", self.grid.label, self.menu.len())
    }
    fn len(&self) -> u64 {
        self.grid.len() * self.menu.len() as u64
    }
    fn get(&self, idx: u64) -> Case {
        let m = self.menu.len() as u64;
        let mut c = self.grid.build(idx / m);
        let d = &self.menu[(idx % m) as usize];
        apply(&mut c.u, &mut c.p, d);
        c.tag = format!("{}#{}+{:?}", self.grid.label, idx / m, d);
        c
    }
}

// ---------------------------------------------------------------------------
// F3 skeletons
// ---------------------------------------------------------------------------

pub fn skeletons() -> Vec<Case> {
    let mk = |tag: &str, pk: &[(&str, u32, &[&str])], rr: &[&str], rc: &[&str]| {
        let (u, p, _) = mini(pk, rr, rc);
        Case {
            u,
            p,
            tag: tag.to_string(),
        }
    };
    vec![
        mk(
            "chain",
            &[("a", 1, &["b *"]), ("a", 2, &["b *"]), ("b", 1, &["c *"]), ("b", 2, &["c *"]), ("c", 1, &[]), ("c", 2, &[])],
            &["a *"],
            &[],
        ),
        mk(
            "diamond",
            &[("a", 1, &["b *", "c *"]), ("b", 1, &["d *"]), ("b", 2, &["d *"]), ("c", 1, &["d *"]), ("c", 2, &["d 1"]), ("d", 1, &[]), ("d", 2, &[])],
            &["a *"],
            &[],
        ),
        mk(
            "conflict-diamond",
            &[("a", 1, &["b *", "c *"]), ("b", 2, &["d 2"]), ("b", 1, &["d 1"]), ("c", 2, &["d 1"]), ("c", 1, &["d 2"]), ("d", 1, &[]), ("d", 2, &[])],
            &["a *"],
            &[],
        ),
        mk(
            "two-cycle",
            &[("a", 1, &["b *"]), ("a", 2, &["b *"]), ("b", 1, &["a *"]), ("b", 2, &["a 2"])],
            &["a *"],
            &[],
        ),
        mk(
            "conflicting-cycle",
            &[("a", 1, &["b *"]), ("a", 2, &["b 2"]), ("b", 1, &["a 2"]), ("b", 2, &["a 1"])],
            &["a *"],
            &[],
        ),
        mk(
            "unsat-diamond",
            &[("a", 1, &["b *", "c *"]), ("b", 1, &["d 1"]), ("b", 2, &["d 1"]), ("c", 1, &["d 2"]), ("c", 2, &["d 2"]), ("d", 1, &[]), ("d", 2, &[])],
            &["a *"],
            &[],
        ),
        mk(
            "independent-roots",
            &[("a", 1, &[]), ("a", 2, &[]), ("b", 1, &[]), ("b", 2, &[]), ("c", 1, &["a 1"])],
            &["a *", "b *"],
            &[],
        ),
        mk(
            "union-root",
            &[("a", 1, &["c 1"]), ("b", 1, &["c 2"]), ("b", 2, &[]), ("c", 1, &[]), ("c", 2, &[])],
            &["a * || b *", "c *"],
            &[],
        ),
        mk(
            "two-specs-one-package",
            &[("a", 1, &[]), ("a", 2, &[]), ("a", 3, &["b *"]), ("b", 1, &[])],
            &["a 1|2", "a 2|3"],
            &[],
        ),
        mk(
            "triple-conflict",
            &[("a", 1, &["d 1"]), ("b", 1, &["d 2"]), ("c", 1, &["d 3"]), ("c", 2, &["d 1|2"]), ("d", 1, &[]), ("d", 2, &[]), ("d", 3, &[])],
            &["a *", "b *", "c *"],
            &[],
        ),
        mk(
            "constrains-only",
            &[("a", 1, &["!b 1"]), ("a", 2, &["!b 2", "c *"]), ("b", 1, &[]), ("b", 2, &[]), ("c", 1, &["b *"])],
            &["a *"],
            &[],
        ),
        mk("empty-root", &[("a", 1, &["b *"]), ("a", 2, &[]), ("b", 1, &[])], &[], &[]),
        // a transitive choice (c) that can rule out the best candidate of a direct requirement (b):
        // c=3 fails deep (d and e disagree about f), c=2 constrains b away from b=3, c=1 is harmless
        mk(
            "direct-vs-transitive",
            &[
                ("a", 2, &["c *", "f *"]),
                ("a", 1, &[]),
                ("b", 3, &[]),
                ("b", 2, &[]),
                ("b", 1, &[]),
                ("c", 3, &["d *", "e *"]),
                ("c", 2, &["!b 1|2"]),
                ("c", 1, &[]),
                ("d", 1, &["!f 2"]),
                ("e", 1, &["!f 1"]),
                ("f", 2, &[]),
                ("f", 1, &[]),
            ],
            &["a *", "b *"],
            &[],
        ),
        // the preferred a=2 is abandoned after its dependencies (d=1, e=1) had been selected through a
        // three-literal learnt clause; nothing of it may stay behind (universe of a seeded change for C05)
        mk(
            "abandoned-candidate",
            &[
                ("a", 1, &[]),
                ("a", 2, &["b *", "x * || d *"]),
                ("x", 1, &["d *"]),
                ("b", 2, &["!d 2"]),
                ("b", 1, &["mb *"]),
                ("d", 2, &["md *"]),
                ("d", 1, &["e *"]),
                ("e", 1, &[]),
            ],
            &["a *"],
            &[],
        ),
        // exercises learning: the pubgrub-article style backtracking chain
        mk(
            "backtrack-chain",
            &[
                ("a", 2, &["b 2", "c *"]),
                ("a", 1, &["b *"]),
                ("b", 2, &["d 2"]),
                ("b", 1, &["d 1"]),
                ("c", 2, &["d 1"]),
                ("c", 1, &["d 1"]),
                ("d", 1, &[]),
                ("d", 2, &[]),
            ],
            &["a *"],
            &[],
        ),
    ]
}

/// Skeletons with an extra, otherwise unreferenced package z (highest name
/// id) whose solvables have requirements into the skeleton (F5 bases).
pub fn soft_skeletons() -> Vec<Case> {
    let mut out = vec![];
    for sk in skeletons() {
        let real: Vec<Id> = (0..sk.u.names.len() as Id)
            .filter(|&n| !sk.u.names[n as usize].cands.is_empty())
            .collect();
        // all non-empty version sets that exist in the skeleton
        let vss: Vec<Id> = (0..sk.u.vsets.len() as Id)
            .filter(|&v| real.contains(&sk.u.vsets[v as usize].name))
            .collect();
        // z=1 requires one version set (each choice), z=2 has no deps
        for &v in vss.iter().chain(std::iter::once(&u32::MAX)) {
            let mut c = sk.clone();
            let z = c.u.add_name("z");
            let z1 = c.u.add_solv(z, 1);
            let z2 = c.u.add_solv(z, 2);
            c.u.add_vset(z, &[z1, z2]);
            c.u.add_vset(z, &[z1]);
            if v != u32::MAX {
                c.u.solvs[z1 as usize].deps.push_req(Req::Single(v));
            }
            c.tag = format!("{}+z(v{})", sk.tag, v as i64);
            out.push(c.clone());
            // back-reference variant: the first-ranked candidate of what z=1 requires requires z again,
            // so z's package is fetched while z=1 is already decided
            if v != u32::MAX {
                let mut m = c.u.vsets[v as usize].members.clone();
                m.sort_by_key(|&s| c.u.solvs[s as usize].rank);
                if let Some(&first) = m.first() {
                    let zall = c.u.vset(z, &[z1, z2]);
                    c.u.solvs[first as usize].deps.push_req(Req::Single(zall));
                    c.tag = format!("{}+backref", c.tag);
                    out.push(c);
                }
            }
        }
    }
    // a soft solvable of an otherwise unreferenced package whose two requirements can only be
    // refuted by a conflict one decision level deeper (its literal ends up in a learnt clause)
    {
        let (u, p, _) = mini(
            &[
                ("c", 1, &[]),
                ("c", 2, &[]),
                ("a", 1, &["c 2"]),
                ("a", 2, &["c 2"]),
                ("b", 1, &["c 1"]),
                ("b", 2, &["c 1"]),
                ("d", 1, &[]),
                ("z", 1, &["a *", "b *"]),
                ("z", 2, &["a *"]),
            ],
            &["d *"],
            &[],
        );
        out.push(Case { u, p, tag: "soft-learn".into() });
    }
    // a soft solvable whose first-ranked dependency conflicts with a level-1 fact: the learnt clause
    // backjumps below the level the soft run started at and the hard closure is re-decided
    {
        let (u, mut p, ids) = mini(
            &[
                ("a", 1, &["x *", "y *", "z *"]),
                ("x", 1, &[]),
                ("x", 2, &["w *"]),
                ("x", 3, &["!y 1"]),
                ("y", 1, &[]),
                ("y", 2, &[]),
                ("y", 3, &[]),
                ("z", 1, &[]),
                ("z", 2, &[]),
                ("w", 1, &[]),
                ("q", 1, &[]),
                ("q", 2, &["y 3"]),
                ("s", 1, &["q *"]),
            ],
            &["a *"],
            &["y 1|2"],
        );
        p.soft = vec![ids["s=1"]];
        out.push(Case { u, p, tag: "soft-backjump-below-start".into() });
    }
    out
}

pub struct Listed {
    pub label: String,
    pub cases: Vec<Case>,
}
impl Family for Listed {
    fn name(&self) -> String {
        self.label.clone()
    }
    fn len(&self) -> u64 {
        self.cases.len() as u64
    }
    fn get(&self, idx: u64) -> Case {
        self.cases[idx as usize].clone()
    }
}

/// A family restricted/expanded by a per-case transformation that yields
/// `mult` variants per base case.
pub struct Expand<'a> {
    pub label: String,
    pub base: &'a dyn Family,
    pub mult: u64,
    pub f: Box<dyn Fn(Case, u64) -> Case + Sync + Send + 'a>,
}
impl Family for Expand<'_> {
    fn name(&self) -> String {
        format!("{} [{}]", self.base.name(), self.label)
    }
    fn len(&self) -> u64 {
        self.base.len() * self.mult
    }
    fn get(&self, idx: u64) -> Case {
        (self.f)(self.base.get(idx / self.mult), idx % self.mult)
    }
}

// ---------------------------------------------------------------------------
// id layouts with gaps (junk rows interned in between)
// ---------------------------------------------------------------------------

/// Renumbers names / solvables / version sets so that `gap` junk rows precede
/// every real row block (gap = 130 crosses a 128-slot chunk).
pub fn with_gaps(c: &Case, gap: usize) -> Case {
    let u = &c.u;
    let mut nu = Universe::default();
    nu.strings = u.strings.clone();
    // names: junk names first
    let nmap = |n: Id| n + gap as Id;
    let smap = |s: Id| s + gap as Id;
    let vmap = |v: Id| v + gap as Id;
    let rmap = |r: Req| match r {
        Req::Single(v) => Req::Single(vmap(v)),
        Req::Union(x) => Req::Union(x + gap as Id),
    };
    for i in 0..gap {
        nu.add_missing_name(&format!("junk{i}"));
    }
    for n in &u.names {
        let mut n2 = n.clone();
        n2.cands = n.cands.iter().map(|&s| smap(s)).collect();
        n2.favored = n.favored.map(smap);
        n2.locked = n.locked.map(smap);
        n2.excluded = n.excluded.iter().map(|&(s, r)| (smap(s), r)).collect();
        n2.hint = match &n.hint {
            Hint::Some(v) => Hint::Some(v.iter().map(|&s| smap(s)).collect()),
            h => h.clone(),
        };
        nu.names.push(n2);
    }
    // junk solvables belong to junk name 0 (never listed)
    for i in 0..gap {
        nu.solvs.push(Solv {
            name: 0,
            version: 900 + i as u32,
            rank: 900 + i as u32,
            deps: Deps::none(),
        });
    }
    for s in &u.solvs {
        let mut s2 = s.clone();
        s2.name = nmap(s.name);
        s2.deps = match &s.deps {
            Deps::Known { reqs, cons } => Deps::Known {
                reqs: reqs.iter().map(|&r| rmap(r)).collect(),
                cons: cons.iter().map(|&v| vmap(v)).collect(),
            },
            d => d.clone(),
        };
        nu.solvs.push(s2);
    }
    for i in 0..gap {
        nu.vsets.push(VSet {
            name: 0,
            members: vec![],
            label: format!("junk{i}"),
        });
    }
    for v in &u.vsets {
        nu.vsets.push(VSet {
            name: nmap(v.name),
            members: v.members.iter().map(|&s| smap(s)).collect(),
            label: v.label.clone(),
        });
    }
    for _ in 0..gap {
        nu.unions.push(vec![0]);
    }
    for un in &u.unions {
        nu.unions.push(un.iter().map(|&v| vmap(v)).collect());
    }
    let p = Problem {
        reqs: c.p.reqs.iter().map(|&r| rmap(r)).collect(),
        cons: c.p.cons.iter().map(|&v| vmap(v)).collect(),
        soft: c.p.soft.iter().map(|&s| smap(s)).collect(),
    };
    Case {
        u: nu,
        p,
        tag: format!("{} gaps({gap})", c.tag),
    }
}

#[cfg(test)]
mod tests {
    use super::*;
    #[test]
    fn unrank() {
        let mut seen = std::collections::BTreeSet::new();
        for i in 0..binom(7, 3) {
            let s = unrank_subset(i, 7, 3);
            assert_eq!(s.len(), 3);
            assert!(s[0] < s[1] && s[1] < s[2] && s[2] < 7);
            assert!(seen.insert(s));
        }
        assert_eq!(seen.len(), 35);
    }
}

/// F5 menu: flags on any solvable, plus requirements/constrains that start at a
/// z solvable or point at package z (z is the last package of a soft skeleton).
pub fn f5_filter(c: &Case, d: &Deco) -> bool {
    let z = c.u.names.iter().position(|n| n.label == "z").unwrap_or(c.u.names.len() - 1) as Id;
    let is_z_solv = |s: &Id| c.u.solvs[*s as usize].name == z;
    let vs_is_z = |v: &VsSpec| match v {
        VsSpec::Id(i) => c.u.vsets[*i as usize].name == z,
        VsSpec::Empty(n) => *n == z,
        VsSpec::Missing => false,
    };
    match d {
        Deco::Soft(_) | Deco::Exclude(..) | Deco::Lock(_) | Deco::Unknown(_) | Deco::Hint(..) => true,
        Deco::Favor(_) => false,
        Deco::AddReq(Src::Solv(s), v) | Deco::AddCons(Src::Solv(s), v) => is_z_solv(s) != vs_is_z(v) && !matches!(v, VsSpec::Missing),
        Deco::AddReq(Src::Root, _) | Deco::AddCons(Src::Root, _) => false,
        Deco::AddUnion(..) => false,
    }
}

// ---------------------------------------------------------------------------
// F8: direct / transitive interference (C08)
// ---------------------------------------------------------------------------

/// Root requires a and b (b: 3 versions, no dependencies). a's versions require c (3 versions) and f.
/// Every c version independently gets one behaviour: nothing, the conflict gadget (requires d and e,
/// which constrain f to different versions), or a constrains entry on b (each proper non-empty subset
/// of b's versions). b's preference order ranges over all 6 permutations, a has 1 or 2 versions.
pub struct F8;

impl F8 {
    const C_OPTS: u64 = 8; // 0 nothing, 1 gadget, 2..7 constrains b to mask 1..6
}

impl Family for F8 {
    fn name(&self) -> String {
        "F8 direct/transitive interference".into()
    }
    fn len(&self) -> u64 {
        Self::C_OPTS.pow(3) * 6 * 2 * 6
    }
    fn get(&self, mut idx: u64) -> Case {
        let mut take = |n: u64| {
            let r = idx % n;
            idx /= n;
            r
        };
        let copt: Vec<u64> = (0..3).map(|_| take(Self::C_OPTS)).collect();
        let bperm = take(6);
        let a_versions = 1 + take(2);
        let cperm = take(6);
        let mut u = Universe::default();
        let a = u.add_name("a");
        let b = u.add_name("b");
        let c = u.add_name("c");
        let d = u.add_name("d");
        let e = u.add_name("e");
        let f = u.add_name("f");
        let av: Vec<Id> = (1..=a_versions as u32).map(|v| u.add_solv(a, v)).collect();
        let bv: Vec<Id> = (1..=3).map(|v| u.add_solv(b, v)).collect();
        let cv: Vec<Id> = (1..=3).map(|v| u.add_solv(c, v)).collect();
        let d1 = u.add_solv(d, 1);
        let e1 = u.add_solv(e, 1);
        let f1 = u.add_solv(f, 1);
        let f2 = u.add_solv(f, 2);
        let perms: [[usize; 3]; 6] = [[0, 1, 2], [0, 2, 1], [1, 0, 2], [1, 2, 0], [2, 0, 1], [2, 1, 0]];
        let bp = perms[bperm as usize];
        u.set_order(&[bv[bp[0]], bv[bp[1]], bv[bp[2]]]);
        let cp = perms[cperm as usize];
        u.set_order(&[cv[cp[0]], cv[cp[1]], cv[cp[2]]]);
        let a_all = u.add_vset(a, &av);
        let b_all = u.add_vset(b, &bv);
        let c_all = u.add_vset(c, &cv);
        let d_all = u.add_vset(d, &[d1]);
        let e_all = u.add_vset(e, &[e1]);
        let f_all = u.add_vset(f, &[f1, f2]);
        let f_1 = u.add_vset(f, &[f1]);
        let f_2 = u.add_vset(f, &[f2]);
        u.solvs[d1 as usize].deps.push_con(f_2);
        u.solvs[e1 as usize].deps.push_con(f_1);
        // the most preferred a requires c and f, a second version (if any) requires nothing
        let a_top = *av.last().unwrap();
        u.solvs[a_top as usize].deps.push_req(Req::Single(c_all));
        u.solvs[a_top as usize].deps.push_req(Req::Single(f_all));
        for (i, &o) in copt.iter().enumerate() {
            let s = cv[i] as usize;
            match o {
                0 => {}
                1 => {
                    u.solvs[s].deps.push_req(Req::Single(d_all));
                    u.solvs[s].deps.push_req(Req::Single(e_all));
                }
                m => {
                    let mask = m - 1; // 1..=6: proper non-empty subsets of b's versions
                    let members: Vec<Id> = (0..3).filter(|k| mask & (1 << k) != 0).map(|k| bv[k]).collect();
                    let vs = u.vset(b, &members);
                    u.solvs[s].deps.push_con(vs);
                }
            }
        }
        let p = Problem {
            reqs: vec![Req::Single(a_all), Req::Single(b_all)],
            cons: vec![],
            soft: vec![],
        };
        Case { u, p, tag: format!("F8#{}", copt.iter().map(|x| x.to_string()).collect::<Vec<_>>().join("")) }
    }
}

// ---------------------------------------------------------------------------
// F9: layered 3x2 with requirement-or-constrains slots and back edges
// ---------------------------------------------------------------------------

/// names a, b, c x versions {1, 2}. Forward slots (a_i -> c, b_i -> c and, when `wide`, a_i -> b)
/// take one of {nothing, requires {1}, requires {2}, requires {1,2}, constrains {1}, constrains {2}};
/// back slots (c_i -> a, c_i -> b) take one of {nothing, requires {1}, requires {2}, requires {1,2}}.
/// Root requires a and b (and, for the second root, c as well).
pub struct F9 {
    pub wide: bool,
}

impl F9 {
    fn slots(&self) -> Vec<(usize, usize, usize, u64)> {
        // (source name, source version, destination name, number of options)
        let mut v = vec![];
        for ver in 1..=2 {
            if self.wide {
                v.push((0, ver, 1, 6));
            }
            v.push((0, ver, 2, 6));
            v.push((1, ver, 2, 6));
            v.push((2, ver, 0, 4));
            v.push((2, ver, 1, 4));
        }
        v
    }
}

impl Family for F9 {
    fn name(&self) -> String {
        format!("F9 layered 3x2 with requires/constrains slots and back edges{}", if self.wide { " (wide)" } else { "" })
    }
    fn len(&self) -> u64 {
        2 * self.slots().iter().map(|s| s.3).product::<u64>()
    }
    fn get(&self, mut idx: u64) -> Case {
        let g = Grid::f1();
        let mut u = g.base();
        let root3 = idx % 2 == 1;
        idx /= 2;
        for (sn, sv, dn, n) in self.slots() {
            let o = idx % n;
            idx /= n;
            let s = g.solv_id(sn, sv) as usize;
            match o {
                0 => {}
                1..=3 => u.solvs[s].deps.push_req(Req::Single(g.vs_id(dn, o as u32))),
                4 => u.solvs[s].deps.push_con(g.vs_id(dn, 1)),
                _ => u.solvs[s].deps.push_con(g.vs_id(dn, 2)),
            }
        }
        let mut p = Problem::default();
        p.reqs.push(Req::Single(g.vs_id(0, 3)));
        p.reqs.push(Req::Single(g.vs_id(1, 3)));
        if root3 {
            p.reqs.push(Req::Single(g.vs_id(2, 3)));
        }
        Case { u, p, tag: "F9".into() }
    }
}

/// F8b: two root requirements (a, b) whose preferred candidates pull in transitive packages that
/// constrain each other: a=2 requires q; b=2 requires x and c; every version of x and c independently
/// does nothing or forbids one version of q. a=1 and b=1 are dependency-free fallbacks.
pub struct F8b;

impl Family for F8b {
    fn name(&self) -> String {
        "F8b transitive/transitive interference".into()
    }
    fn len(&self) -> u64 {
        81 * 2 * 2
    }
    fn get(&self, mut idx: u64) -> Case {
        let mut take = |n: u64| {
            let r = idx % n;
            idx /= n;
            r
        };
        let opts: Vec<u64> = (0..4).map(|_| take(3)).collect();
        let q_pref_low = take(2) == 1;
        let x_pref_low = take(2) == 1;
        let mut u = Universe::default();
        let a = u.add_name("a");
        let b = u.add_name("b");
        let q = u.add_name("q");
        let x = u.add_name("x");
        let c = u.add_name("c");
        let a1 = u.add_solv(a, 1);
        let a2 = u.add_solv(a, 2);
        let b1 = u.add_solv(b, 1);
        let b2 = u.add_solv(b, 2);
        let q1 = u.add_solv(q, 1);
        let q2 = u.add_solv(q, 2);
        let x1 = u.add_solv(x, 1);
        let x2 = u.add_solv(x, 2);
        let c1 = u.add_solv(c, 1);
        let c2 = u.add_solv(c, 2);
        if q_pref_low {
            u.set_order(&[q1, q2]);
        }
        if x_pref_low {
            u.set_order(&[x1, x2]);
        }
        let a_all = u.add_vset(a, &[a1, a2]);
        let b_all = u.add_vset(b, &[b1, b2]);
        let q_all = u.add_vset(q, &[q1, q2]);
        let x_all = u.add_vset(x, &[x1, x2]);
        let c_all = u.add_vset(c, &[c1, c2]);
        let q_only1 = u.add_vset(q, &[q1]);
        let q_only2 = u.add_vset(q, &[q2]);
        u.solvs[a2 as usize].deps.push_req(Req::Single(q_all));
        u.solvs[b2 as usize].deps.push_req(Req::Single(x_all));
        u.solvs[b2 as usize].deps.push_req(Req::Single(c_all));
        for (i, s) in [x1, x2, c1, c2].into_iter().enumerate() {
            match opts[i] {
                0 => {}
                1 => u.solvs[s as usize].deps.push_con(q_only1), // forbids q=2
                _ => u.solvs[s as usize].deps.push_con(q_only2), // forbids q=1
            }
        }
        let p = Problem { reqs: vec![Req::Single(a_all), Req::Single(b_all)], cons: vec![], soft: vec![] };
        Case { u, p, tag: "F8b".into() }
    }
}

/// F10 "late reveal": names a, q, z, p x versions {1, 2}; root requires a (and, for the second root,
/// q as well). a_i requires q and z (in that order, so that on a tie q is decided first), z_i requires
/// p, p_i requires or constrains q: the package p is first seen in a later encoding round than the
/// one in which q was decided. Slots a_i -> q, a_i -> z, z_i -> p take one of {nothing, {1}, {2},
/// {1,2}}; p_i -> q one of {nothing, requires {1}, {2}, {1,2}, constrains {1}, constrains {2}}.
/// Meant to be combined with per-package availability hints (a hinted p is encoded while it is still
/// undecided, under whatever the decisions for q happen to be at that moment).
pub struct F10;

impl F10 {
    fn slots() -> Vec<(usize, usize, usize, u64)> {
        // (source name, source version, destination name, number of options); names: a=0 q=1 z=2 p=3
        let mut v = vec![];
        for ver in 1..=2 {
            v.push((0, ver, 1, 4));
            v.push((0, ver, 2, 4));
            v.push((2, ver, 3, 4));
            v.push((3, ver, 1, 6));
        }
        v
    }
}

impl Family for F10 {
    fn name(&self) -> String {
        "F10 late reveal 4x2 (a -> q, z; z -> p; p -> requires/constrains q)".into()
    }
    fn len(&self) -> u64 {
        2 * Self::slots().iter().map(|s| s.3).product::<u64>()
    }
    fn get(&self, mut idx: u64) -> Case {
        let g = Grid { label: "F10".into(), n_names: 4, n_vers: 2, edges: vec![], root: RootMenu::AnyVersion, fixed: vec![] };
        let mut u = g.base();
        let root2 = idx % 2 == 1;
        idx /= 2;
        for (sn, sv, dn, n) in Self::slots() {
            let o = idx % n;
            idx /= n;
            let s = g.solv_id(sn, sv) as usize;
            match o {
                0 => {}
                1..=3 => u.solvs[s].deps.push_req(Req::Single(g.vs_id(dn, o as u32))),
                4 => u.solvs[s].deps.push_con(g.vs_id(dn, 1)),
                _ => u.solvs[s].deps.push_con(g.vs_id(dn, 2)),
            }
        }
        let mut p = Problem::default();
        p.reqs.push(Req::Single(g.vs_id(0, 3)));
        if root2 {
            p.reqs.push(Req::Single(g.vs_id(1, 3)));
        }
        Case { u, p, tag: "F10".into() }
    }
}

/// F11 "soft sequence": successive soft requirements that share helper packages, so that what one
/// (possibly abandoned) soft run encoded under its transient decisions is met again by a later run.
/// Packages: base=1 (root requirement), s=1 and t=1 (the soft solvables), a=1 and a=2, x=1 and x=2,
/// b=1 (a switch that can be a dead end).
///  * s requires a* or nothing, requires b* or nothing, and relates to x in one of
///    {nothing, requires x{1}, requires x{2}, constrains x{1}, constrains x{2}};
///  * a=1 and a=2 independently relate to x in one of {nothing, constrains x{1}, constrains x{2},
///    requires x{1}, requires x{2}, requires x*};
///  * b=1 is one of {no dependencies, requires a package without candidates, Unknown dependencies,
///    excluded};
///  * t requires a* or nothing and x in one of {nothing, x{1}, x{2}, x*};
///  * x=1 has no dependencies, Unknown dependencies, or requires dep=1 (a package nobody else needs);
///  * root requires base, or base and x*;
///  * soft list: [s, t], [t, s], [s, t, s], [t].
pub struct F11;

impl F11 {
    const DIMS: [u64; 11] = [2, 2, 5, 6, 6, 4, 2, 4, 2, 4, 3];
}

impl Family for F11 {
    fn name(&self) -> String {
        "F11 soft sequence (s, t soft; shared a, x; switch b)".into()
    }
    fn len(&self) -> u64 {
        Self::DIMS.iter().product()
    }
    fn get(&self, mut idx: u64) -> Case {
        let mut d = [0u64; 11];
        for (i, n) in Self::DIMS.iter().enumerate() {
            d[i] = idx % n;
            idx /= n;
        }
        let mut u = Universe::default();
        let base = u.add_name("base");
        let s = u.add_name("s");
        let t = u.add_name("t");
        let a = u.add_name("a");
        let x = u.add_name("x");
        let b = u.add_name("b");
        let base1 = u.add_solv(base, 1);
        let s1 = u.add_solv(s, 1);
        let t1 = u.add_solv(t, 1);
        let a1 = u.add_solv(a, 1);
        let a2 = u.add_solv(a, 2);
        let x1 = u.add_solv(x, 1);
        let x2 = u.add_solv(x, 2);
        let b1 = u.add_solv(b, 1);
        for n in [a, x] {
            u.rerank_by_version(n);
        }
        let base_all = u.add_vset(base, &[base1]);
        let a_all = u.add_vset(a, &[a1, a2]);
        let b_all = u.add_vset(b, &[b1]);
        let x_1 = u.add_vset(x, &[x1]);
        let x_2 = u.add_vset(x, &[x2]);
        let x_all = u.add_vset(x, &[x1, x2]);
        let _ = base1;
        // s
        if d[0] == 1 {
            u.solvs[s1 as usize].deps.push_req(Req::Single(a_all));
        }
        if d[1] == 1 {
            u.solvs[s1 as usize].deps.push_req(Req::Single(b_all));
        }
        match d[2] {
            1 => u.solvs[s1 as usize].deps.push_req(Req::Single(x_1)),
            2 => u.solvs[s1 as usize].deps.push_req(Req::Single(x_2)),
            3 => u.solvs[s1 as usize].deps.push_con(x_1),
            4 => u.solvs[s1 as usize].deps.push_con(x_2),
            _ => {}
        }
        // a=1, a=2
        for (sv, o) in [(a1, d[3]), (a2, d[4])] {
            match o {
                1 => u.solvs[sv as usize].deps.push_con(x_1),
                2 => u.solvs[sv as usize].deps.push_con(x_2),
                3 => u.solvs[sv as usize].deps.push_req(Req::Single(x_1)),
                4 => u.solvs[sv as usize].deps.push_req(Req::Single(x_2)),
                5 => u.solvs[sv as usize].deps.push_req(Req::Single(x_all)),
                _ => {}
            }
        }
        // b
        match d[5] {
            1 => {
                let m = u.add_missing_name("m");
                let mv = u.add_vset(m, &[]);
                u.solvs[b1 as usize].deps.push_req(Req::Single(mv));
            }
            2 => {
                let r = u.add_string("unknown");
                u.solvs[b1 as usize].deps = Deps::Unknown(r);
            }
            3 => {
                let r = u.add_string("excluded");
                u.names[b as usize].excluded.push((b1, r));
            }
            _ => {}
        }
        // t
        if d[6] == 1 {
            u.solvs[t1 as usize].deps.push_req(Req::Single(a_all));
        }
        match d[7] {
            1 => u.solvs[t1 as usize].deps.push_req(Req::Single(x_1)),
            2 => u.solvs[t1 as usize].deps.push_req(Req::Single(x_2)),
            3 => u.solvs[t1 as usize].deps.push_req(Req::Single(x_all)),
            _ => {}
        }
        // x=1 itself: no dependencies, Unknown dependencies, or a requirement on a package nobody else needs
        match d[10] {
            1 => {
                let r = u.add_string("unknown-x");
                u.solvs[x1 as usize].deps = Deps::Unknown(r);
            }
            2 => {
                let dep = u.add_name("dep");
                let dep1 = u.add_solv(dep, 1);
                let dep_all = u.add_vset(dep, &[dep1]);
                u.solvs[x1 as usize].deps.push_req(Req::Single(dep_all));
            }
            _ => {}
        }
        let mut p = Problem::default();
        p.reqs.push(Req::Single(base_all));
        if d[8] == 1 {
            p.reqs.push(Req::Single(x_all));
        }
        p.soft = match d[9] {
            0 => vec![s1, t1],
            1 => vec![t1, s1],
            2 => vec![s1, t1, s1],
            _ => vec![t1],
        };
        Case { u, p, tag: "F11".into() }
    }
}

/// F12 "soft reveals more candidates": lib has four versions; app=1 requires lib{A}, plugin=1 requires
/// lib{B} for every pair of non-empty subsets A, B; lib is preferred newest-first or oldest-first; app
/// is either the root requirement (soft list [plugin]) or itself the first soft requirement (root
/// requires base, soft list [app, plugin]). The soft run of plugin reveals candidates of an already
/// installed package that the solver has not seen before (new at-most-one clauses against decided
/// helper variables).
pub struct F12;

impl Family for F12 {
    fn name(&self) -> String {
        "F12 soft requirement revealing further candidates of an installed package (lib x 4)".into()
    }
    fn len(&self) -> u64 {
        15 * 15 * 2 * 2
    }
    fn get(&self, mut idx: u64) -> Case {
        let mut take = |n: u64| {
            let r = idx % n;
            idx /= n;
            r
        };
        let a_mask = take(15) + 1;
        let b_mask = take(15) + 1;
        let oldest_first = take(2) == 1;
        let app_soft = take(2) == 1;
        let mut u = Universe::default();
        let base = u.add_name("base");
        let app = u.add_name("app");
        let lib = u.add_name("lib");
        let plugin = u.add_name("plugin");
        let base1 = u.add_solv(base, 1);
        let app1 = u.add_solv(app, 1);
        let libs: Vec<Id> = (1..=4).map(|v| u.add_solv(lib, v)).collect();
        let plugin1 = u.add_solv(plugin, 1);
        u.rerank_by_version(lib);
        if oldest_first {
            u.set_order(&libs);
        }
        let subset = |m: u64| -> Vec<Id> { (0..4).filter(|i| m & (1 << i) != 0).map(|i| libs[i]).collect() };
        let base_all = u.add_vset(base, &[base1]);
        let app_all = u.add_vset(app, &[app1]);
        let va = u.add_vset(lib, &subset(a_mask));
        let vb = u.vset(lib, &subset(b_mask));
        u.solvs[app1 as usize].deps.push_req(Req::Single(va));
        u.solvs[plugin1 as usize].deps.push_req(Req::Single(vb));
        let mut p = Problem::default();
        if app_soft {
            p.reqs.push(Req::Single(base_all));
            p.soft = vec![app1, plugin1];
        } else {
            p.reqs.push(Req::Single(app_all));
            p.soft = vec![plugin1];
        }
        Case { u, p, tag: "F12".into() }
    }
}

/// F13 "exempt soft solvable meets other rules": package p (versions 1, 2) may be locked to one version
/// and may have one version excluded; a version of p is named directly as a soft requirement (and is
/// thereby exempt from p's lock / exclusion list) before or after the soft requirement t=1, which
/// requires or constrains p in one of {nothing, constrains {1}, constrains {2}, requires {1}, requires
/// {2}, requires *}. Root requires base, or base and p*.
pub struct F13;

impl Family for F13 {
    fn name(&self) -> String {
        "F13 directly named soft solvable of a locked / excluded package vs another soft requirement".into()
    }
    fn len(&self) -> u64 {
        3 * 3 * 6 * 2 * 2 * 2 * 3
    }
    fn get(&self, mut idx: u64) -> Case {
        let mut take = |n: u64| {
            let r = idx % n;
            idx /= n;
            r
        };
        let lock = take(3);
        let excl = take(3);
        let rel = take(6);
        let soft_p = take(2);
        let p_first = take(2) == 1;
        let root_p = take(2) == 1;
        // an unrelated soft solvable z=1 (no dependencies, package mentioned by nobody): absent, last or
        // in the middle of the soft list
        let with_z = take(3);
        let mut u = Universe::default();
        let base = u.add_name("base");
        let p = u.add_name("p");
        let t = u.add_name("t");
        let base1 = u.add_solv(base, 1);
        let p1 = u.add_solv(p, 1);
        let p2 = u.add_solv(p, 2);
        let t1 = u.add_solv(t, 1);
        u.rerank_by_version(p);
        let base_all = u.add_vset(base, &[base1]);
        let p_1 = u.add_vset(p, &[p1]);
        let p_2 = u.add_vset(p, &[p2]);
        let p_all = u.add_vset(p, &[p1, p2]);
        match lock {
            1 => u.names[p as usize].locked = Some(p1),
            2 => u.names[p as usize].locked = Some(p2),
            _ => {}
        }
        if excl > 0 {
            let r = u.add_string("excluded");
            let s = if excl == 1 { p1 } else { p2 };
            u.names[p as usize].excluded.push((s, r));
        }
        match rel {
            1 => u.solvs[t1 as usize].deps.push_con(p_1),
            2 => u.solvs[t1 as usize].deps.push_con(p_2),
            3 => u.solvs[t1 as usize].deps.push_req(Req::Single(p_1)),
            4 => u.solvs[t1 as usize].deps.push_req(Req::Single(p_2)),
            5 => u.solvs[t1 as usize].deps.push_req(Req::Single(p_all)),
            _ => {}
        }
        let sp = if soft_p == 0 { p1 } else { p2 };
        let mut prob = Problem::default();
        prob.reqs.push(Req::Single(base_all));
        if root_p {
            prob.reqs.push(Req::Single(p_all));
        }
        prob.soft = if p_first { vec![sp, t1] } else { vec![t1, sp] };
        if with_z > 0 {
            let z = u.add_name("z");
            let z1 = u.add_solv(z, 1);
            if with_z == 1 {
                prob.soft.push(z1);
            } else {
                prob.soft.insert(1, z1);
            }
        }
        Case { u, p: prob, tag: "F13".into() }
    }
}

/// F14 "late candidate of a package with three or more candidates": root requires a (and may
/// constrain t); a=2 requires x and w, a=1 (present or not) has no dependencies; x=2 and x=1 each
/// require t within a subset of its versions (x=1 possibly nothing); w=1 requires y, y=1 requires t
/// within a subset. t has `nt` versions (3 or 4), so its at-most-one encoding has helper variables,
/// and candidates of t are revealed by y only after x's choice of t was decided: conflict clauses
/// then contain helper literals of a lower level. Every non-empty subset of t's versions is a
/// version set.
pub struct F14 {
    pub nt: u32,
}

impl Family for F14 {
    fn name(&self) -> String {
        format!("F14 late candidate of a package with {} candidates (a -> x, w; x -> t; w -> y -> t; root constrains t)", self.nt)
    }
    fn len(&self) -> u64 {
        let s = (1u64 << self.nt) - 1; // non-empty subsets
        s * (s + 1) * s * (s + 1) * 2
    }
    fn get(&self, mut idx: u64) -> Case {
        let s = (1u64 << self.nt) - 1;
        let mut take = |n: u64| {
            let r = idx % n;
            idx /= n;
            r
        };
        let sx2 = take(s) + 1;
        let sx1 = take(s + 1);
        let sy = take(s) + 1;
        let sroot = take(s + 1);
        let with_a1 = take(2) == 1;
        let mut u = Universe::default();
        let a = u.add_name("a");
        let x = u.add_name("x");
        let w = u.add_name("w");
        let y = u.add_name("y");
        let t = u.add_name("t");
        let a1 = if with_a1 { Some(u.add_solv(a, 1)) } else { None };
        let a2 = u.add_solv(a, 2);
        let x1 = u.add_solv(x, 1);
        let x2 = u.add_solv(x, 2);
        let w1 = u.add_solv(w, 1);
        let y1 = u.add_solv(y, 1);
        let ts: Vec<Id> = (1..=self.nt).map(|v| u.add_solv(t, v)).collect();
        for n in [a, x, t] {
            u.rerank_by_version(n);
        }
        let a_all = u.add_vset(a, &a1.into_iter().chain([a2]).collect::<Vec<_>>());
        let x_all = u.add_vset(x, &[x1, x2]);
        let w_all = u.add_vset(w, &[w1]);
        let y_all = u.add_vset(y, &[y1]);
        let mut subset = |u: &mut Universe, mask: u64| -> Id {
            let members: Vec<Id> = ts.iter().enumerate().filter(|(i, _)| mask & (1 << i) != 0).map(|(_, &s)| s).collect();
            u.vset(t, &members)
        };
        let v = subset(&mut u, sx2);
        u.solvs[x2 as usize].deps.push_req(Req::Single(v));
        if sx1 > 0 {
            let v = subset(&mut u, sx1);
            u.solvs[x1 as usize].deps.push_req(Req::Single(v));
        }
        let v = subset(&mut u, sy);
        u.solvs[y1 as usize].deps.push_req(Req::Single(v));
        u.solvs[a2 as usize].deps.push_req(Req::Single(x_all));
        u.solvs[a2 as usize].deps.push_req(Req::Single(w_all));
        u.solvs[w1 as usize].deps.push_req(Req::Single(y_all));
        let mut prob = Problem::default();
        prob.reqs.push(Req::Single(a_all));
        if sroot > 0 {
            let v = subset(&mut u, sroot);
            prob.cons.push(v);
        }
        Case { u, p: prob, tag: "F14".into() }
    }
}
