//! C16: a DependencySnapshot is a faithful, serialisable copy of a provider.
//! E1 universes (incl. id layouts with gaps) x capture seeds x {direct, serde
//! round trip} x E4 histories of add_package_requirement.

use std::collections::BTreeSet;

use resolvo::{
    snapshot::{DependencySnapshot, SnapshotProvider},
    DependencyProvider, Interner, NameId, Problem as RProblem, SolvableId, Solver, UnsolvableOrCancelled, VersionSetId,
};
use serde_json::json;
use futures::FutureExt;

use crate::families::*;
use crate::oracle::Sem;
use crate::provider::*;
use crate::report::{Ctx, Report, Tier};
use crate::sweep::*;
use crate::universe::*;

#[derive(Clone, Debug, serde::Serialize, serde::Deserialize, PartialEq)]
pub enum Seed {
    /// all real package names + the version sets of the problem
    Names,
    /// only the version sets of the problem
    ProblemVsets,
    /// a single solvable (+ the version sets of the problem)
    Solvable(Id),
    /// a single version set only
    OneVset(Id),
}

#[derive(Clone, Debug, serde::Serialize, serde::Deserialize)]
pub struct Add {
    pub name: Id,
    pub matcher: String,
}

#[derive(Clone, Debug, serde::Serialize, serde::Deserialize)]
pub struct Scenario {
    pub seed: Seed,
    pub serde: bool,
    pub adds: Vec<Add>,
    /// call `with_timeout(far future)` on the provider after this many additions
    #[serde(default)]
    pub timeout_after: Option<usize>,
}

fn viol(sig: &str, what: String, case: &Case, sc: &Scenario, order: (usize, u64, u32)) -> Violation {
    Violation {
        property: "C16".into(),
        signature: sig.to_string(),
        what,
        replay: json!({"kind": "c16", "case": case, "scenario": sc, "universe": case.u.describe(&case.p)}),
        order,
    }
}

fn capture(case: &Case, seed: &Seed) -> Result<DependencySnapshot, String> {
    let u = &case.u;
    let prov = Prov::new(u);
    let pv: Vec<VersionSetId> = case
        .p
        .reqs
        .iter()
        .flat_map(|&r| u.req_vsets(r))
        .chain(case.p.cons.iter().copied())
        .map(VersionSetId)
        .collect();
    let (names, vsets, solvs): (Vec<NameId>, Vec<VersionSetId>, Vec<SolvableId>) = match seed {
        Seed::Names => (
            (0..u.names.len() as Id)
                .filter(|&n| !u.names[n as usize].label.starts_with("junk"))
                .map(NameId)
                .collect(),
            pv,
            vec![],
        ),
        Seed::ProblemVsets => (vec![], pv, vec![]),
        Seed::Solvable(s) => (vec![], pv, vec![SolvableId(*s)]),
        Seed::OneVset(v) => (vec![], vec![VersionSetId(*v)], vec![]),
    };
    let r = std::panic::catch_unwind(std::panic::AssertUnwindSafe(|| DependencySnapshot::from_provider(prov, names, vsets, solvs)));
    match r {
        Ok(Ok(s)) => Ok(s),
        Ok(Err(_)) => Err("from_provider was cancelled".into()),
        Err(_) => Err("from_provider panicked".into()),
    }
}

fn captured_vsets(s: &DependencySnapshot, upper: usize) -> Vec<u32> {
    (0..upper as u32).filter(|&v| s.version_sets.get(VersionSetId(v)).is_some()).collect()
}

enum Verdict {
    Ok(Vec<Id>),
    Unsat,
    Panic(String),
    Other,
}

fn solve_snapshot(prov: SnapshotProvider<'_>, reqs: Vec<VersionSetId>, cons: Vec<VersionSetId>) -> (Verdict, Option<SnapshotProvider<'_>>) {
    let r = std::panic::catch_unwind(std::panic::AssertUnwindSafe(move || {
        let mut solver = Solver::new(prov);
        let p = RProblem::new().requirements(reqs.into_iter().map(Into::into).collect()).constraints(cons);
        let r = solver.solve(p);
        match r {
            Ok(sol) => Verdict::Ok(sol.into_iter().map(|s| s.0).collect()),
            Err(UnsolvableOrCancelled::Unsolvable(_)) => Verdict::Unsat,
            Err(_) => Verdict::Other,
        }
    }));
    match r {
        Ok(v) => (v, None),
        Err(e) => {
            let msg = e.downcast_ref::<String>().cloned().or_else(|| e.downcast_ref::<&str>().map(|s| s.to_string())).unwrap_or_default();
            (Verdict::Panic(msg.chars().take(120).collect()), None)
        }
    }
}

/// One scenario on one case. Every panic of snapshot code is a violation here
/// ("every captured version set stays resolvable").
pub fn check_scenario(case: &Case, sc: &Scenario, order: (usize, u64, u32), acc: &mut Acc) {
    let u = &case.u;
    acc.evaluations += 1;
    let snap = match capture(case, &sc.seed) {
        Ok(s) => s,
        Err(e) => {
            acc.violation(viol("capture-failed", e, case, sc, order));
            return;
        }
    };
    let snap = if sc.serde {
        let text = match serde_json::to_string(&snap) {
            Ok(t) => t,
            Err(e) => {
                acc.violation(viol("serde-ser", e.to_string(), case, sc, order));
                return;
            }
        };
        match serde_json::from_str::<DependencySnapshot>(&text) {
            Ok(s) => {
                // a restored snapshot is a snapshot like any other: it goes through a second round trip
                let again = serde_json::to_string(&s).ok().and_then(|t| serde_json::from_str::<DependencySnapshot>(&t).ok());
                match again {
                    Some(s2) => s2,
                    None => {
                        acc.violation(viol("serde-second-round-trip", "a deserialised snapshot cannot be serialised and deserialised again".into(), case, sc, order));
                        return;
                    }
                }
            }
            Err(e) => {
                acc.violation(viol("serde-de", format!("{e}"), case, sc, order));
                return;
            }
        }
    } else {
        snap
    };
    let captured = captured_vsets(&snap, u.vsets.len());
    if captured.is_empty() {
        acc.count("scenarios_nothing_captured");
        return;
    }
    acc.count("snapshots");
    let highest = *captured.last().unwrap();
    // observations of every captured version set before any addition
    let observe = |prov: &SnapshotProvider<'_>| -> Result<Vec<(u32, String, u32, Vec<u32>)>, String> {
        let r = std::panic::catch_unwind(std::panic::AssertUnwindSafe(|| {
            captured
                .iter()
                .map(|&v| {
                    let vid = VersionSetId(v);
                    let name = prov.version_set_name(vid);
                    let cands: Vec<SolvableId> = snap.packages.get(name).map(|p| p.solvables.clone()).unwrap_or_default();
                    let m = prov.filter_candidates(&cands, vid, false).now_or_never().unwrap();
                    (v, prov.display_version_set(vid).to_string(), name.0, m.into_iter().map(|s| s.0).collect())
                })
                .collect::<Vec<_>>()
        }));
        r.map_err(|e| e.downcast_ref::<String>().cloned().or_else(|| e.downcast_ref::<&str>().map(|s| s.to_string())).unwrap_or_default())
    };
    let mut prov = snap.provider();
    let before = match observe(&prov) {
        Ok(b) => b,
        Err(e) => {
            acc.violation(viol("captured-vset-unresolvable", format!("resolving captured version sets panics before any addition: {e}"), case, sc, order));
            return;
        }
    };
    // every captured version set must describe the live one
    for (v, display, name, members) in &before {
        let live = &u.vsets[*v as usize];
        let sem = Sem::new(u, &case.p);
        let want: Vec<u32> = sem.matching(*v).to_vec();
        if *name != live.name || display != &live.label || members.iter().collect::<BTreeSet<_>>() != want.iter().collect::<BTreeSet<_>>() {
            acc.violation(viol(
                "captured-vset-wrong",
                format!("captured version set {v} reads ({name}, {display:?}, {members:?}), live is ({}, {:?}, {want:?})", live.name, live.label),
                case,
                sc,
                order,
            ));
            return;
        }
    }
    // additions
    let far = std::time::SystemTime::now() + std::time::Duration::from_secs(3600);
    let mut added: Vec<(VersionSetId, Add)> = vec![];
    if sc.timeout_after == Some(0) {
        prov = prov.with_timeout(far);
    }
    for (ai, a) in sc.adds.iter().enumerate() {
        if ai > 0 && sc.timeout_after == Some(ai) {
            // configuring a timeout must not forget the version sets added so far
            prov = prov.with_timeout(far);
        }
        if snap.packages.get(NameId(a.name)).is_none() {
            acc.count("adds_skipped_package_not_captured");
            continue;
        }
        let r = std::panic::catch_unwind(std::panic::AssertUnwindSafe(|| prov.add_package_requirement(NameId(a.name), &a.matcher)));
        let id = match r {
            Ok(id) => id,
            Err(_) => {
                acc.violation(viol("add-panicked", format!("add_package_requirement({}, {:?}) panicked", a.name, a.matcher), case, sc, order));
                return;
            }
        };
        acc.count("additions");
        if captured.contains(&id.0) {
            acc.violation(viol(
                "added-id-aliases-captured",
                format!("add_package_requirement returned id {} which is a captured version set (captured: {:?})", id.0, captured),
                case,
                sc,
                order,
            ));
            return;
        }
        if added.iter().any(|x| x.0 == id) {
            acc.violation(viol("added-id-reused", format!("two additions got the same id {}", id.0), case, sc, order));
            return;
        }
        added.push((id, a.clone()));
        match observe(&prov) {
            Ok(after) if after == before => {}
            Ok(after) => {
                let diff: Vec<_> = before.iter().zip(after.iter()).filter(|(a, b)| a != b).collect();
                acc.violation(viol(
                    "captured-vset-shadowed",
                    format!("after adding a version set, captured version sets read differently: {diff:?}"),
                    case,
                    sc,
                    order,
                ));
                return;
            }
            Err(e) => {
                acc.violation(viol(
                    "captured-vset-unresolvable",
                    format!("after adding a version set, resolving a captured version set panics: {e} (highest captured id {highest})"),
                    case,
                    sc,
                    order,
                ));
                return;
            }
        }
    }
    if sc.timeout_after == Some(sc.adds.len()) && !sc.adds.is_empty() {
        prov = prov.with_timeout(far);
        match observe(&prov) {
            Ok(after) if after == before => {}
            _ => {
                acc.violation(viol("captured-vset-shadowed", "after with_timeout captured version sets read differently or panic".into(), case, sc, order));
                return;
            }
        }
    }
    // problems to solve through the snapshot
    struct Prob {
        what: String,
        reqs: Vec<VersionSetId>,
        cons: Vec<VersionSetId>,
        live: (Universe, Problem),
    }
    let mut probs: Vec<Prob> = vec![];
    let expressible = case.p.reqs.iter().all(|r| matches!(r, Req::Single(v) if captured.contains(v))) && case.p.cons.iter().all(|v| captured.contains(v)) && case.p.soft.is_empty();
    if expressible {
        probs.push(Prob {
            what: "the case's problem".into(),
            reqs: case.p.reqs.iter().map(|r| match r {
                Req::Single(v) => VersionSetId(*v),
                _ => unreachable!(),
            }).collect(),
            cons: case.p.cons.iter().map(|&v| VersionSetId(v)).collect(),
            live: (u.clone(), case.p.clone()),
        });
    }
    probs.push(Prob {
        what: format!("require the highest captured version set {highest}"),
        reqs: vec![VersionSetId(highest)],
        cons: vec![],
        live: (u.clone(), Problem { reqs: vec![Req::Single(highest)], cons: vec![], soft: vec![] }),
    });
    for (id, a) in &added {
        // the equivalent live version set
        let mut lu = u.clone();
        let members: Vec<Id> = lu.names[a.name as usize]
            .cands
            .iter()
            .copied()
            .filter(|&s| a.matcher == "*" || lu.solvs[s as usize].version.to_string().contains(&a.matcher))
            .collect();
        let lv = lu.add_vset(a.name, &members);
        probs.push(Prob {
            what: format!("require the added version set {} ({} {:?})", id.0, a.name, a.matcher),
            reqs: vec![*id],
            cons: vec![],
            live: (lu, Problem { reqs: vec![Req::Single(lv)], cons: vec![], soft: vec![] }),
        });
    }
    for pb in probs {
        let sem = Sem::new(&pb.live.0, &pb.live.1);
        let expect_sat = sem.sat();
        // a fresh provider with the same additions (Solver::new consumes the provider)
        let mut p2 = snap.provider();
        let mut ok = true;
        if sc.timeout_after == Some(0) {
            p2 = p2.with_timeout(far);
        }
        for (ai, (_, a)) in added.iter().enumerate() {
            if ai > 0 && sc.timeout_after == Some(ai) {
                p2 = p2.with_timeout(far);
            }
            if std::panic::catch_unwind(std::panic::AssertUnwindSafe(|| p2.add_package_requirement(NameId(a.name), &a.matcher))).is_err() {
                ok = false;
            }
        }
        if sc.timeout_after == Some(added.len()) && !added.is_empty() {
            p2 = p2.with_timeout(far);
        }
        if !ok {
            continue;
        }
        let (verdict, _) = solve_snapshot(p2, pb.reqs.clone(), pb.cons.clone());
        acc.evaluations += 1;
        acc.count("solves_through_snapshot");
        match verdict {
            Verdict::Panic(m) => {
                // a solver panic that the live provider shows as well is not a snapshot matter (C04)
                let live = crate::run::run_case(&pb.live.0, &pb.live.1, &crate::run::RunCfg { hint_override: Some(Hint::All), ..Default::default() });
                if matches!(live.outcome, crate::run::Outcome::Panic(_)) {
                    acc.count("solver_panics_also_with_live_provider_left_to_C04");
                    continue;
                }
                acc.violation(viol(
                    "solve-panicked",
                    format!("solving through the snapshot ({}) panicked: {m}", pb.what),
                    case,
                    sc,
                    order,
                ));
                return;
            }
            Verdict::Other => {}
            Verdict::Unsat => {
                if expect_sat {
                    acc.violation(viol("verdict-differs", format!("{}: snapshot says Unsolvable, the live provider has a solution", pb.what), case, sc, order));
                    return;
                }
            }
            Verdict::Ok(sol) => {
                if !expect_sat {
                    acc.violation(viol("verdict-differs", format!("{}: snapshot gives a solution, the live provider has none", pb.what), case, sc, order));
                    return;
                }
                if let Err(rule) = sem.check_valid(&sem.sel_of(&sol), &[]) {
                    acc.violation(viol(
                        &format!("invalid-against-live:{}", rule.kind()),
                        format!("{}: snapshot solution {:?} violates {rule:?} of the live provider", pb.what, sol),
                        case,
                        sc,
                        order,
                    ));
                    return;
                }
                // preference order preserved: on conflict-free problems the solution is the first-choice closure
                if let Some(s) = sem.conflict_free(&[]) {
                    acc.count("conflict_free_solves");
                    if !pb.live.0.unions.is_empty() {
                        acc.count("conflict_free_solves_with_unions_in_universe");
                    }
                    let got: BTreeSet<Id> = sol.iter().copied().collect();
                    if got != s {
                        let sparse = pb.live.0.names.iter().any(|n| n.label.starts_with("junk"));
                        let union = s.iter().chain(got.iter()).any(|&x| pb.live.0.solvs[x as usize].deps.reqs().iter().any(|r| matches!(r, Req::Union(_))));
                        acc.violation(viol(
                            &format!("preference-order-lost{}{}", if sparse { ":sparse-ids" } else { "" }, if union { ":union" } else { "" }),
                            format!(
                                "{}: live first choices are {:?}, the snapshot solves to {:?}",
                                pb.what,
                                s.iter().map(|&x| pb.live.0.solv_label(x)).collect::<Vec<_>>(),
                                sol.iter().map(|&x| pb.live.0.solv_label(x)).collect::<Vec<_>>()
                            ),
                            case,
                            sc,
                            order,
                        ));
                        return;
                    }
                }
            }
        }
    }
    acc.mark_nontrivial(case_hash(case));
}

pub fn scenarios(case: &Case, q: bool) -> Vec<Scenario> {
    let u = &case.u;
    let real: Vec<Id> = (0..u.names.len() as Id).filter(|&n| !u.names[n as usize].missing && !u.names[n as usize].cands.is_empty()).collect();
    let mut seeds = vec![Seed::Names, Seed::ProblemVsets];
    if !q {
        for &n in &real {
            if let Some(&s) = u.names[n as usize].cands.first() {
                seeds.push(Seed::Solvable(s));
            }
        }
        for v in 0..u.vsets.len() as Id {
            if real.contains(&u.vsets[v as usize].name) {
                seeds.push(Seed::OneVset(v));
            }
        }
    } else if let Some(&n) = real.last() {
        seeds.push(Seed::Solvable(u.names[n as usize].cands[0]));
    }
    // addition alphabet: (name, "*") and (name, "1") for the first two real packages
    let mut alpha: Vec<Add> = vec![];
    for &n in real.iter().take(2) {
        alpha.push(Add { name: n, matcher: "*".into() });
        alpha.push(Add { name: n, matcher: "1".into() });
    }
    let mut hist: Vec<Vec<Add>> = vec![vec![]];
    for a in &alpha {
        hist.push(vec![a.clone()]);
    }
    if !q {
        for a in &alpha {
            for b in &alpha {
                hist.push(vec![a.clone(), b.clone()]);
            }
        }
    } else if alpha.len() >= 2 {
        hist.push(vec![alpha[0].clone(), alpha[1].clone()]);
        hist.push(vec![alpha[1].clone(), alpha[1].clone()]);
    }
    let mut out = vec![];
    for s in &seeds {
        for serde in [false, true] {
            for h in &hist {
                out.push(Scenario { seed: s.clone(), serde, adds: h.clone(), timeout_after: None });
                // with_timeout at every position of the history (only for the direct snapshot: the
                // serde axis is independent of it)
                if !serde && !h.is_empty() {
                    for pos in 0..=h.len() {
                        out.push(Scenario { seed: s.clone(), serde, adds: h.clone(), timeout_after: Some(pos) });
                    }
                }
            }
        }
    }
    out
}

pub fn run(ctx: &Ctx) -> i32 {
    let q = ctx.tier == Tier::Quick;
    let mut rep = Report::new(
        "model_checking",
        "for every universe of the listed families (no favored/locked; dense ids and layouts with 3 / 130 junk rows in front): every capture seed of the menu (all names, the problem's version sets, single solvables, single version sets) x {direct, serde_json round trip} x every history of 0..2 add_package_requirement calls over a 4-item alphabet; after every addition all captured version sets are re-read; the case's problem, the highest captured version set and every added version set are solved through the snapshot and compared with brute force on the live universe; non-trivial = distinct universes for which at least one snapshot was solved",
    );
    rep.assumptions.push("root problems with union requirements are not expressible through from_provider's seeds and are skipped".into());
    let no_fav = |d: &Deco| !matches!(d, Deco::Favor(_) | Deco::Lock(_) | Deco::Soft(_) | Deco::Hint(..) | Deco::AddUnion(Src::Root, _));
    let base: Vec<(Box<dyn Family>, u64)> = vec![
        (Box::new(Decorated::new("F3 skeletons", skeletons(), if q { 1 } else { 2 }, false, &no_fav)), if q { 3 } else { 29 }),
        (Box::new(Grid::f1().with_root(RootMenu::AnyVersion)), if q { 64 } else { 16 }),
        // several exclusions / Unknown answers at once (they share one interned reason string)
        (
            Box::new(Decorated::new("F3 skeletons x exclusion / unknown decorations", skeletons(), 2, false, &|d| matches!(d, Deco::Exclude(..) | Deco::Unknown(_)))),
            if q { 2 } else { 1 },
        ),
    ];
    let mut states = 0;
    let mut transitions = 0;
    for (fi, (fam, stride)) in base.into_iter().enumerate() {
        let fam_g = crate::plans::ExpandOwned {
            label: "id layouts dense/gap3/gap130, candidates listed in descending id order".into(),
            base: fam,
            mult: 4,
            f: Box::new(|c, k| match k {
                0 => c,
                1 => with_gaps(&c, 3),
                2 => with_gaps(&c, 130),
                _ => {
                    // the provider lists every package's candidates in descending id order
                    let mut c = c;
                    for n in c.u.names.iter_mut() {
                        n.cands.reverse();
                    }
                    c.tag = format!("{} cands-reversed", c.tag);
                    c
                }
            }),
        };
        let opts = SweepOpts {
            threads: threads(),
            wall_limit_s: 120,
            on_stuck: Box::new(|_, idx| { eprintln!("MACHINERY ERROR: C16 stuck at {idx}"); None }),
            fam_no: fi,
            stride,
            offset: if stride > 1 { ctx.seed % stride } else { 0 },
        };
        let acc = sweep(&fam_g, &opts, &|idx, case, acc| {
            if case.u.well_formed(&case.p).is_err() || !case.p.soft.is_empty() {
                return;
            }
            acc.count("cases");
            for (si, sc) in scenarios(case, q).iter().enumerate() {
                acc.count("scenarios");
                check_scenario(case, sc, (fi, idx, si as u32), acc);
            }
            acc.sample(|| json!({"universe": case.u.describe(&case.p), "scenarios": scenarios(case, q).len()}));
        });
        states += acc.get("cases");
        transitions += acc.get("scenarios");
        eprintln!("[C16] {}: {} universes, {} scenarios, {:.1}s", fam_g.name(), acc.get("cases"), acc.get("scenarios"), ctx.t0.elapsed().as_secs_f64());
        rep.push(&format!("{} (every {stride}th index)", fam_g.name()), acc, stride == 1, fam_g.len());
    }
    rep.extra.insert("states".into(), json!(states));
    rep.extra.insert("transitions".into(), json!(transitions));
    rep.extra.insert("traces_validated_against_impl".into(), json!(transitions));
    let a = rep.counter("solves_through_snapshot");
    let b = rep.counter("additions");
    let c = rep.counter("conflict_free_solves");
    rep.require(a > 1000 && b > 100 && c > 100, "snapshots not exercised");
    rep.finish(ctx)
}

pub fn replay(v: &serde_json::Value) -> Vec<String> {
    let case: Case = serde_json::from_value(v["case"].clone()).expect("case");
    let sc: Scenario = serde_json::from_value(v["scenario"].clone()).expect("scenario");
    let mut acc = Acc::default();
    check_scenario(&case, &sc, (0, 0, 0), &mut acc);
    acc.violations.iter().map(|v| v.signature.clone()).collect()
}
