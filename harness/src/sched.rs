//! E2: a controlled single-threaded executor. Provider futures park on
//! `Gate`s; whenever the solver's future is quiescent (returned `Pending` and
//! nobody woke the root task) the controller picks which parked request
//! completes next. A schedule is the list of those picks; exploration is
//! stateless DFS by re-execution with a choice prefix (`explore`).

use std::{
    cell::{Cell, RefCell},
    future::Future,
    pin::Pin,
    rc::Rc,
    sync::{
        atomic::{AtomicBool, Ordering},
        Arc,
    },
    task::{Context, Poll, Wake, Waker},
};

use resolvo::runtime::AsyncRuntime;

use crate::provider::Ev;
use crate::universe::Id;

/// Payload of the panic used to abandon an execution from inside `block_on`.
#[derive(Debug, Clone, Copy, PartialEq, Eq)]
pub enum SchedAbort {
    /// quiescent with nothing parked: the solver waits for something that can never complete
    Deadlock,
    /// poll horizon exceeded
    Horizon,
    /// the schedule prefix asked for a choice the execution does not offer
    Divergence,
}

pub struct Parked {
    pub id: u64,
    pub kind: u8,
    pub arg: Id,
    pub waker: Waker,
}

#[derive(Clone, Copy, Debug, PartialEq, Eq)]
pub enum Policy {
    Fifo,
    Lifo,
}

pub struct Controller {
    pub parked: RefCell<Vec<Parked>>,
    released: RefCell<Vec<u64>>,
    next_id: Cell<u64>,
    pub prefix: RefCell<Vec<u32>>,
    pub policy: Cell<Policy>,
    /// allow releasing an ordered pair of requests at one quiescent point
    pub pairs: Cell<bool>,
    /// (choice taken, number of alternatives) per quiescent point
    pub trace: RefCell<Vec<(u32, u32)>>,
    pub polls: Cell<u64>,
    pub horizon: u64,
    pub log: RefCell<Option<Rc<RefCell<Vec<Ev>>>>>,
    pub max_parked: Cell<usize>,
}

impl Controller {
    pub fn new(prefix: Vec<u32>, policy: Policy, pairs: bool) -> Rc<Self> {
        Rc::new(Controller {
            parked: RefCell::new(Vec::new()),
            released: RefCell::new(Vec::new()),
            next_id: Cell::new(0),
            prefix: RefCell::new(prefix),
            policy: Cell::new(policy),
            pairs: Cell::new(pairs),
            trace: RefCell::new(Vec::new()),
            polls: Cell::new(0),
            horizon: 100_000,
            log: RefCell::new(None),
            max_parked: Cell::new(0),
        })
    }
    /// Start a new schedule on the same controller (used for successive solves on one solver).
    pub fn reset_schedule(&self, prefix: Vec<u32>) {
        *self.prefix.borrow_mut() = prefix;
        self.trace.borrow_mut().clear();
        self.polls.set(0);
    }
    /// Completes the parked request at position `idx` (registration order) by hand; used by harnesses
    /// that poll futures themselves instead of going through `CtlRuntime::block_on`.
    pub fn release_at(&self, idx: usize) -> bool {
        let p = {
            let mut parked = self.parked.borrow_mut();
            if idx >= parked.len() {
                return false;
            }
            parked.remove(idx)
        };
        self.released.borrow_mut().push(p.id);
        p.waker.wake();
        true
    }
    fn is_released(&self, id: u64) -> bool {
        self.released.borrow().contains(&id)
    }
    fn push_log(&self, e: Ev) {
        if let Some(l) = &*self.log.borrow() {
            l.borrow_mut().push(e);
        }
    }
}

pub struct Gate {
    ctl: Rc<Controller>,
    id: Option<u64>,
    kind: u8,
    arg: Id,
    done: bool,
}

impl Gate {
    pub fn new(ctl: Rc<Controller>, kind: u8, arg: Id) -> Self {
        Gate {
            ctl,
            id: None,
            kind,
            arg,
            done: false,
        }
    }
}

impl Future for Gate {
    type Output = ();
    fn poll(mut self: Pin<&mut Self>, cx: &mut Context<'_>) -> Poll<()> {
        match self.id {
            None => {
                let id = self.ctl.next_id.get();
                self.ctl.next_id.set(id + 1);
                self.id = Some(id);
                self.ctl.parked.borrow_mut().push(Parked {
                    id,
                    kind: self.kind,
                    arg: self.arg,
                    waker: cx.waker().clone(),
                });
                let n = self.ctl.parked.borrow().len();
                if n > self.ctl.max_parked.get() {
                    self.ctl.max_parked.set(n);
                }
                Poll::Pending
            }
            Some(id) => {
                if self.ctl.is_released(id) {
                    self.done = true;
                    Poll::Ready(())
                } else {
                    for p in self.ctl.parked.borrow_mut().iter_mut() {
                        if p.id == id {
                            p.waker = cx.waker().clone();
                        }
                    }
                    Poll::Pending
                }
            }
        }
    }
}

impl Drop for Gate {
    fn drop(&mut self) {
        if let (Some(id), false) = (self.id, self.done) {
            // the awaiting future was dropped (e.g. cancellation): the request
            // can no longer complete
            self.ctl.parked.borrow_mut().retain(|p| p.id != id);
        }
    }
}

struct FlagWaker(AtomicBool);
impl Wake for FlagWaker {
    fn wake(self: Arc<Self>) {
        self.0.store(true, Ordering::SeqCst);
    }
    fn wake_by_ref(self: &Arc<Self>) {
        self.0.store(true, Ordering::SeqCst);
    }
}

pub struct CtlRuntime(pub Rc<Controller>);

impl AsyncRuntime for CtlRuntime {
    fn block_on<F: Future>(&self, f: F) -> F::Output {
        let ctl = &self.0;
        let mut f = std::pin::pin!(f);
        let flag = Arc::new(FlagWaker(AtomicBool::new(false)));
        let waker = Waker::from(flag.clone());
        let mut cx = Context::from_waker(&waker);
        loop {
            flag.0.store(false, Ordering::SeqCst);
            ctl.polls.set(ctl.polls.get() + 1);
            if ctl.polls.get() > ctl.horizon {
                std::panic::panic_any(SchedAbort::Horizon);
            }
            if let Poll::Ready(v) = f.as_mut().poll(&mut cx) {
                return v;
            }
            if flag.0.load(Ordering::SeqCst) {
                // somebody (FuturesUnordered, Event) woke the task during the poll: not quiescent
                continue;
            }
            // quiescent: choose which parked request(s) complete
            let n = ctl.parked.borrow().len() as u32;
            if n == 0 {
                ctl.push_log(Ev::Deadlock);
                std::panic::panic_any(SchedAbort::Deadlock);
            }
            let n_alt = if ctl.pairs.get() { n + n * (n - 1) } else { n };
            let pos = ctl.trace.borrow().len();
            let choice = match ctl.prefix.borrow().get(pos) {
                Some(&c) => {
                    if c >= n_alt {
                        std::panic::panic_any(SchedAbort::Divergence);
                    }
                    c
                }
                None => 0,
            };
            ctl.trace.borrow_mut().push((choice, n_alt));
            ctl.push_log(Ev::Quiescent(
                ctl.parked.borrow().iter().map(|p| (p.kind, p.arg)).collect(),
            ));
            // decode the choice into 1 or 2 positions (in registration order)
            let map = |i: u32| -> usize {
                match ctl.policy.get() {
                    Policy::Fifo => i as usize,
                    Policy::Lifo => (n - 1 - i) as usize,
                }
            };
            let picks: Vec<usize> = if choice < n {
                vec![map(choice)]
            } else {
                let c = choice - n;
                let i = c / (n - 1);
                let mut j = c % (n - 1);
                if j >= i {
                    j += 1;
                }
                vec![map(i), map(j)]
            };
            let ids: Vec<u64> = picks.iter().map(|&i| ctl.parked.borrow()[i].id).collect();
            for id in ids {
                let p = {
                    let mut parked = ctl.parked.borrow_mut();
                    let idx = parked.iter().position(|p| p.id == id).unwrap();
                    parked.remove(idx)
                };
                ctl.released.borrow_mut().push(p.id);
                ctl.push_log(Ev::Release(p.kind, p.arg));
                p.waker.wake();
            }
        }
    }
}

#[derive(Default, Debug, Clone)]
pub struct ExploreStats {
    pub runs: u64,
    pub quiescent_points: u64,
    pub max_alternatives: u32,
    pub capped: bool,
    pub max_depth: usize,
}

/// Stateless DFS over schedules. `run(prefix)` executes once and returns the
/// trace `(choice, alternatives)`; every alternative after the prefix whose
/// deviation count stays within `bound` is queued. Returns false from `run`'s
/// second component to stop early.
pub fn explore(
    bound: Option<u32>,
    cap: u64,
    mut run: impl FnMut(&[u32]) -> Result<Vec<(u32, u32)>, String>,
) -> Result<ExploreStats, String> {
    let mut stats = ExploreStats::default();
    let mut stack: Vec<Vec<u32>> = vec![vec![]];
    while let Some(prefix) = stack.pop() {
        if stats.runs >= cap {
            stats.capped = true;
            break;
        }
        let trace = run(&prefix)?;
        stats.runs += 1;
        stats.quiescent_points += trace.len() as u64;
        stats.max_depth = stats.max_depth.max(trace.len());
        if trace.len() < prefix.len() {
            return Err(format!(
                "schedule divergence: prefix {:?} but trace {:?}",
                prefix, trace
            ));
        }
        for (i, &(c, _)) in trace.iter().enumerate().take(prefix.len()) {
            if c != prefix[i] {
                return Err(format!("schedule divergence at {i}: {:?} vs {:?}", prefix, trace));
            }
        }
        let mut dev: u32 = trace[..prefix.len()].iter().filter(|t| t.0 != 0).count() as u32;
        for i in prefix.len()..trace.len() {
            let (c, n) = trace[i];
            stats.max_alternatives = stats.max_alternatives.max(n);
            debug_assert_eq!(c, 0);
            if bound.map_or(true, |b| dev + 1 <= b) {
                for alt in (1..n).rev() {
                    let mut p: Vec<u32> = trace[..i].iter().map(|t| t.0).collect();
                    p.push(alt);
                    stack.push(p);
                }
            }
            if c != 0 {
                dev += 1;
            }
        }
    }
    Ok(stats)
}
