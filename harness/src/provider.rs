//! `Prov`: the `Interner + DependencyProvider` view of a `Universe`, with a call
//! log, a cancellation plan and (optionally) gates that a controlled executor
//! releases one at a time (see `sched.rs`).

use std::{
    any::Any,
    cell::{Cell, RefCell},
    fmt::Display,
    rc::Rc,
};

use resolvo::{
    Candidates, Dependencies, DependencyProvider, HintDependenciesAvailable, Interner,
    KnownDependencies, NameId, Requirement, SolvableId, SolverCache, StringId, VersionSetId,
    VersionSetUnionId,
};

use crate::sched::{Controller, Gate};
use crate::universe::*;

pub const K_CANDS: u8 = 1;
pub const K_DEPS: u8 = 2;
pub const K_FILTER: u8 = 4;
pub const K_SORT: u8 = 8;

#[derive(Clone, Debug, PartialEq, Eq, Hash, serde::Serialize, serde::Deserialize)]
pub enum Ev {
    /// get_candidates(name) entered
    Cands(Id),
    CandsEnd(Id),
    /// get_dependencies(solvable) entered
    Deps(Id),
    DepsEnd(Id),
    Filter(Id, bool),
    Sort(Vec<Id>),
    /// should_cancel_with_value poll number k, fired?
    Poll(u32, bool),
    /// controlled executor: quiescent point with these parked (kind, arg) requests
    Quiescent(Vec<(u8, Id)>),
    /// controlled executor: this parked request was completed
    Release(u8, Id),
    Deadlock,
    /// marks the start of the i-th solve call in a history
    Solve(u32),
}

#[derive(Clone, Copy, Debug, PartialEq, Eq, serde::Serialize, serde::Deserialize)]
pub enum CancelPlan {
    Never,
    /// fire at poll index k; sticky = also at every later poll
    At { k: u32, sticky: bool },
}

/// What `sort_candidates` does besides sorting (C20: re-entrant cache use).
#[derive(Clone, Copy, Debug, PartialEq, Eq, serde::Serialize, serde::Deserialize)]
pub enum SortCallback {
    None,
    /// asks the cache for the dependencies of every solvable being sorted
    DepsOfSorted,
    /// asks the cache for the candidates of every *other* package mentioned
    /// by the dependencies of the sorted solvables
    CandsOfMentioned,
}

/// Token returned when the harness's wall-clock monitor asked a looping execution to stop.
#[derive(Debug)]
pub struct Killed;

/// The cancellation token carried by `Cancelled`.
#[derive(Debug, PartialEq, Eq)]
pub struct Token(pub u32);

pub struct Prov<'u> {
    pub u: &'u Universe,
    pub log: Rc<RefCell<Vec<Ev>>>,
    pub polls: Cell<u32>,
    pub cancel: Cell<CancelPlan>,
    pub ctl: Option<Rc<Controller>>,
    pub mask: u8,
    pub sort_cb: SortCallback,
    /// `filter_candidates` returns its answer in reverse listing order (the trait does not promise any order)
    pub filter_reversed: bool,
    pub hint_override: Option<Hint>,
    /// per-package override: bit n set = package n answers All, clear = None
    pub hint_mask: Option<u64>,
    /// use the trait's default `should_cancel_with_value` semantics (never look at polls)
    pub logging: bool,
}

impl<'u> Prov<'u> {
    pub fn new(u: &'u Universe) -> Self {
        Prov {
            u,
            log: Rc::new(RefCell::new(Vec::new())),
            polls: Cell::new(0),
            cancel: Cell::new(CancelPlan::Never),
            ctl: None,
            mask: 0,
            sort_cb: SortCallback::None,
            filter_reversed: false,
            hint_override: None,
            hint_mask: None,
            logging: true,
        }
    }
    #[inline]
    fn ev(&self, e: Ev) {
        if self.logging {
            self.log.borrow_mut().push(e);
        }
    }
    async fn gate(&self, kind: u8, arg: Id) {
        if let Some(ctl) = &self.ctl {
            if self.mask & kind != 0 {
                Gate::new(ctl.clone(), kind, arg).await;
            }
        }
    }
    pub fn take_log(&self) -> Vec<Ev> {
        std::mem::take(&mut *self.log.borrow_mut())
    }
}

pub fn to_req(r: Req) -> Requirement {
    match r {
        Req::Single(v) => Requirement::Single(VersionSetId(v)),
        Req::Union(u) => Requirement::Union(VersionSetUnionId(u)),
    }
}
pub fn from_req(r: Requirement) -> Req {
    match r {
        Requirement::Single(v) => Req::Single(v.0),
        Requirement::Union(u) => Req::Union(u.0),
    }
}

pub fn to_dependencies(d: &Deps) -> Dependencies {
    match d {
        Deps::Known { reqs, cons } => Dependencies::Known(KnownDependencies {
            requirements: reqs.iter().map(|&r| to_req(r)).collect(),
            constrains: cons.iter().map(|&c| VersionSetId(c)).collect(),
        }),
        Deps::Unknown(r) => Dependencies::Unknown(StringId(*r)),
    }
}

impl Interner for Prov<'_> {
    fn display_solvable(&self, solvable: SolvableId) -> impl Display + '_ {
        self.u.solvs[solvable.0 as usize].version
    }
    fn display_name(&self, name: NameId) -> impl Display + '_ {
        &self.u.names[name.0 as usize].label
    }
    /// Unlike the trait's default this keeps the order in which the solver hands the merged solvables
    /// over (a provider is free to do so): an order that depended on a hash container would show in the
    /// conflict message.
    fn display_merged_solvables(&self, solvables: &[SolvableId]) -> impl Display + '_ {
        let mut s = String::new();
        if let Some(first) = solvables.first() {
            s.push_str(&self.u.names[self.u.solvs[first.0 as usize].name as usize].label);
            s.push(' ');
        }
        for (i, id) in solvables.iter().enumerate() {
            if i > 0 {
                s.push_str(" | ");
            }
            s.push_str(&self.u.solvs[id.0 as usize].version.to_string());
        }
        s
    }
    fn display_version_set(&self, version_set: VersionSetId) -> impl Display + '_ {
        &self.u.vsets[version_set.0 as usize].label
    }
    fn display_string(&self, string_id: StringId) -> impl Display + '_ {
        &self.u.strings[string_id.0 as usize]
    }
    fn version_set_name(&self, version_set: VersionSetId) -> NameId {
        NameId(self.u.vsets[version_set.0 as usize].name)
    }
    fn solvable_name(&self, solvable: SolvableId) -> NameId {
        NameId(self.u.solvs[solvable.0 as usize].name)
    }
    fn version_sets_in_union(
        &self,
        version_set_union: VersionSetUnionId,
    ) -> impl Iterator<Item = VersionSetId> {
        self.u.unions[version_set_union.0 as usize]
            .iter()
            .map(|&v| VersionSetId(v))
    }
}

impl DependencyProvider for Prov<'_> {
    async fn filter_candidates(
        &self,
        candidates: &[SolvableId],
        version_set: VersionSetId,
        inverse: bool,
    ) -> Vec<SolvableId> {
        self.ev(Ev::Filter(version_set.0, inverse));
        let vs = &self.u.vsets[version_set.0 as usize];
        let mut out: Vec<SolvableId> = candidates
            .iter()
            .copied()
            .filter(|c| vs.members.contains(&c.0) != inverse)
            .collect();
        if self.filter_reversed {
            out.reverse();
        }
        self.gate(K_FILTER, version_set.0 * 2 + inverse as u32).await;
        out
    }

    async fn get_candidates(&self, name: NameId) -> Option<Candidates> {
        self.ev(Ev::Cands(name.0));
        let n = &self.u.names[name.0 as usize];
        let out = if n.missing {
            None
        } else {
            let masked;
            let hint = match (self.hint_mask, self.hint_override.as_ref()) {
                (Some(m), _) => {
                    masked = if m & (1u64 << (name.0 % 64)) != 0 { Hint::All } else { Hint::None };
                    &masked
                }
                (None, Some(h)) => h,
                (None, None) => &n.hint,
            };
            Some(Candidates {
                candidates: n.cands.iter().map(|&c| SolvableId(c)).collect(),
                favored: n.favored.map(SolvableId),
                locked: n.locked.map(SolvableId),
                hint_dependencies_available: match hint {
                    Hint::None => HintDependenciesAvailable::None,
                    Hint::All => HintDependenciesAvailable::All,
                    Hint::Some(v) => HintDependenciesAvailable::Some(
                        v.iter()
                            .filter(|s| n.cands.contains(s))
                            .map(|&s| SolvableId(s))
                            .collect(),
                    ),
                },
                excluded: n
                    .excluded
                    .iter()
                    .map(|&(s, r)| (SolvableId(s), StringId(r)))
                    .collect(),
            })
        };
        self.gate(K_CANDS, name.0).await;
        self.ev(Ev::CandsEnd(name.0));
        out
    }

    async fn sort_candidates(&self, solver: &SolverCache<Self>, solvables: &mut [SolvableId]) {
        self.ev(Ev::Sort(solvables.iter().map(|s| s.0).collect()));
        match self.sort_cb {
            SortCallback::None => {}
            SortCallback::DepsOfSorted => {
                for &s in solvables.iter() {
                    let _ = solver.get_or_cache_dependencies(s).await;
                }
            }
            SortCallback::CandsOfMentioned => {
                for &s in solvables.iter() {
                    let sv = &self.u.solvs[s.0 as usize];
                    for r in sv.deps.reqs() {
                        for v in self.u.req_vsets(*r) {
                            let n = self.u.vsets[v as usize].name;
                            if n != sv.name {
                                let _ = solver.get_or_cache_candidates(NameId(n)).await;
                            }
                        }
                    }
                }
            }
        }
        solvables.sort_by_key(|s| self.u.solvs[s.0 as usize].rank);
        if let Some(first) = solvables.first() {
            self.gate(K_SORT, first.0).await;
        }
    }

    async fn get_dependencies(&self, solvable: SolvableId) -> Dependencies {
        self.ev(Ev::Deps(solvable.0));
        let out = to_dependencies(&self.u.solvs[solvable.0 as usize].deps);
        self.gate(K_DEPS, solvable.0).await;
        self.ev(Ev::DepsEnd(solvable.0));
        out
    }

    fn should_cancel_with_value(&self) -> Option<Box<dyn Any>> {
        if crate::sweep::kill_requested() {
            return Some(Box::new(Killed));
        }
        let k = self.polls.get();
        self.polls.set(k + 1);
        let fire = match self.cancel.get() {
            CancelPlan::Never => false,
            CancelPlan::At { k: at, sticky } => k == at || (sticky && k > at),
        };
        self.ev(Ev::Poll(k, fire));
        if fire {
            Some(Box::new(Token(k)))
        } else {
            None
        }
    }
}

/// A provider that does *not* override `should_cancel_with_value` (C12 baseline:
/// "if it never fires, polling has no effect").
pub struct PlainProv<'u>(pub Prov<'u>);

impl Interner for PlainProv<'_> {
    fn display_solvable(&self, solvable: SolvableId) -> impl Display + '_ {
        self.0.display_solvable(solvable)
    }
    fn display_name(&self, name: NameId) -> impl Display + '_ {
        self.0.display_name(name)
    }
    fn display_version_set(&self, version_set: VersionSetId) -> impl Display + '_ {
        self.0.display_version_set(version_set)
    }
    fn display_string(&self, string_id: StringId) -> impl Display + '_ {
        self.0.display_string(string_id)
    }
    fn version_set_name(&self, version_set: VersionSetId) -> NameId {
        self.0.version_set_name(version_set)
    }
    fn solvable_name(&self, solvable: SolvableId) -> NameId {
        self.0.solvable_name(solvable)
    }
    fn version_sets_in_union(
        &self,
        version_set_union: VersionSetUnionId,
    ) -> impl Iterator<Item = VersionSetId> {
        self.0.version_sets_in_union(version_set_union)
    }
}

impl DependencyProvider for PlainProv<'_> {
    async fn filter_candidates(
        &self,
        candidates: &[SolvableId],
        version_set: VersionSetId,
        inverse: bool,
    ) -> Vec<SolvableId> {
        self.0.filter_candidates(candidates, version_set, inverse).await
    }
    async fn get_candidates(&self, name: NameId) -> Option<Candidates> {
        self.0.get_candidates(name).await
    }
    async fn sort_candidates(&self, _solver: &SolverCache<Self>, solvables: &mut [SolvableId]) {
        self.0.ev(Ev::Sort(solvables.iter().map(|s| s.0).collect()));
        solvables.sort_by_key(|s| self.0.u.solvs[s.0 as usize].rank);
    }
    async fn get_dependencies(&self, solvable: SolvableId) -> Dependencies {
        self.0.get_dependencies(solvable).await
    }
}
