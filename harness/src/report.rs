//! Evidence files, replay artefacts, known findings, exit codes.

use std::{collections::BTreeMap, path::PathBuf, time::Instant};

use serde_json::{json, Value};

use crate::sweep::{Acc, Violation};

pub fn verif_root() -> PathBuf {
    std::env::var("VERIF_ROOT")
        .map(PathBuf::from)
        .unwrap_or_else(|_| PathBuf::from("/verif"))
}

#[derive(Clone, Debug, PartialEq, Eq)]
pub enum Tier {
    Quick,
    Thorough,
}

impl Tier {
    pub fn as_str(&self) -> &'static str {
        match self {
            Tier::Quick => "quick",
            Tier::Thorough => "thorough",
        }
    }
    pub fn pick<T>(&self, q: T, t: T) -> T {
        match self {
            Tier::Quick => q,
            Tier::Thorough => t,
        }
    }
}

pub struct Ctx {
    pub property: String,
    pub tier: Tier,
    pub seed: u64,
    /// which build this process is: "dbg" (debug assertions on) or "release"
    pub pass: String,
    pub out: PathBuf,
    pub t0: Instant,
}

#[derive(serde::Deserialize, Clone, Debug)]
pub struct KnownFinding {
    pub property: String,
    pub signature: String,
    pub what: String,
}

pub fn load_known() -> Vec<KnownFinding> {
    let p = verif_root().join("known_findings.json");
    let Ok(s) = std::fs::read_to_string(&p) else {
        return vec![];
    };
    let v: Value = serde_json::from_str(&s).expect("known_findings.json is not valid JSON");
    v.get("findings")
        .and_then(|f| serde_json::from_value(f.clone()).ok())
        .unwrap_or_default()
}

fn digest(s: &str) -> String {
    use std::hash::{Hash, Hasher};
    #[allow(deprecated)]
    let mut h = std::hash::SipHasher::new_with_keys(1, 2);
    s.hash(&mut h);
    format!("{:016x}", h.finish())
}

pub struct Section {
    pub name: String,
    pub acc: Acc,
    pub exhaustive: bool,
    pub space: u64,
}

pub struct Report {
    pub level: &'static str,
    pub rule: String,
    pub sections: Vec<Section>,
    pub assumptions: Vec<String>,
    pub extra: BTreeMap<String, Value>,
    /// machinery-level failures (vacuity guards, oracle self-check): exit 2
    pub machinery_errors: Vec<String>,
}

impl Report {
    pub fn new(level: &'static str, rule: &str) -> Self {
        Report {
            level,
            rule: rule.to_string(),
            sections: vec![],
            assumptions: vec![],
            extra: BTreeMap::new(),
            machinery_errors: vec![],
        }
    }
    pub fn push(&mut self, name: &str, acc: Acc, exhaustive: bool, space: u64) {
        self.sections.push(Section {
            name: name.to_string(),
            acc,
            exhaustive,
            space,
        });
    }
    pub fn counter(&self, k: &str) -> u64 {
        self.sections.iter().map(|s| s.acc.get(k)).sum()
    }
    pub fn require(&mut self, cond: bool, msg: &str) {
        if !cond {
            self.machinery_errors.push(format!("vacuity guard failed: {msg}"));
        }
    }

    /// Writes the (partial) evidence file, replay artefacts, prints
    /// VIOLATION / KNOWN-FINDING lines, returns the exit code.
    pub fn finish(self, ctx: &Ctx) -> i32 {
        let known = load_known();
        let mut evaluations = 0u64;
        let mut nontrivial = std::collections::HashSet::new();
        let mut distinct = std::collections::HashSet::new();
        let mut samples: Vec<Value> = vec![];
        let mut counters: BTreeMap<String, u64> = BTreeMap::new();
        let mut sections = vec![];
        let mut all_viol: Vec<Violation> = vec![];
        let mut exhaustive = true;
        for s in self.sections {
            evaluations += s.acc.evaluations;
            nontrivial.extend(s.acc.nontrivial.iter().copied());
            distinct.extend(s.acc.distinct.iter().copied());
            for x in s.acc.samples.iter().take(3) {
                if samples.len() < 8 {
                    samples.push(x.clone());
                }
            }
            for (k, v) in &s.acc.counters {
                if k.starts_with("max:") {
                    let e = counters.entry(k.clone()).or_insert(0);
                    *e = (*e).max(*v);
                } else {
                    *counters.entry(k.clone()).or_insert(0) += v;
                }
            }
            exhaustive &= s.exhaustive;
            sections.push(json!({
                "family": s.name,
                "space": s.space,
                "evaluations": s.acc.evaluations,
                "enumerated_completely": s.exhaustive,
                "distinct_nontrivial": s.acc.nontrivial.len(),
                "counters": s.acc.counters,
            }));
            all_viol.extend(s.acc.violations);
        }
        // violations: split into known / new
        let mut new_viol = vec![];
        let mut known_hit: BTreeMap<String, (String, u64)> = BTreeMap::new();
        for v in all_viol {
            if let Some(k) = known
                .iter()
                .find(|k| k.property == v.property && v.signature.starts_with(&k.signature))
            {
                known_hit
                    .entry(k.signature.clone())
                    .or_insert((k.what.clone(), 0))
                    .1 += 1;
            } else {
                new_viol.push(v);
            }
        }
        for (sig, (what, _)) in &known_hit {
            println!("KNOWN-FINDING: property={} {} [{}]", ctx.property, what, sig);
        }
        let mut replay_paths = vec![];
        let dir = verif_root().join("replays").join(&ctx.property);
        for v in &new_viol {
            let _ = std::fs::create_dir_all(&dir);
            let body = json!({
                "property": v.property,
                "signature": v.signature,
                "what": v.what,
                "pass": ctx.pass,
                "replay": v.replay,
            });
            let text = serde_json::to_string_pretty(&body).unwrap();
            let path = dir.join(format!("{}.json", digest(&format!("{}{}", v.signature, v.replay))));
            let _ = std::fs::write(&path, text);
            println!(
                "VIOLATION property={} replay={}",
                v.property,
                path.display()
            );
            println!("  what: {} [{}]", v.what, v.signature);
            replay_paths.push(path.display().to_string());
        }
        let mut machinery_errors = self.machinery_errors.clone();
        let hung = (crate::sweep::ABANDONED.load(std::sync::atomic::Ordering::SeqCst) + crate::sweep::KILLED.load(std::sync::atomic::Ordering::SeqCst)).saturating_sub(crate::sweep::NOT_REPRODUCED.load(std::sync::atomic::Ordering::SeqCst));
        if hung > 0 && new_viol.is_empty() {
            // an incomplete run without a finding is not a verdict
            machinery_errors.push(format!("{hung} execution(s) exceeded the wall limit and were skipped (non-termination is C04's subject); this run is incomplete"));
        }
        if crate::sweep::GAVE_UP.load(std::sync::atomic::Ordering::SeqCst) {
            exhaustive = false;
        }
        for e in &machinery_errors {
            eprintln!("MACHINERY ERROR: {e}");
        }
        let mut coverage = json!({
            "evaluations": evaluations,
            "distinct_nontrivial": nontrivial.len(),
            "distinct_cases": distinct.len(),
            "rule": self.rule,
            "samples": samples,
            "exhaustive": exhaustive,
            "sections": sections,
            "counters": counters,
            "known_findings_hit": known_hit.iter().map(|(k, v)| json!({"signature": k, "what": v.0, "instances_reported": v.1})).collect::<Vec<_>>(),
            "replays": replay_paths,
            "pass": ctx.pass,
        });
        for (k, v) in self.extra {
            coverage[k] = v;
        }
        let ev = json!({
            "property_id": ctx.property,
            "tier": ctx.tier.as_str(),
            "seed": ctx.seed,
            "level": self.level,
            "coverage": coverage,
            "assumptions": self.assumptions,
            "wall_s": ctx.t0.elapsed().as_secs_f64(),
            "violations": new_viol.len(),
            "machinery_errors": machinery_errors,
            "executions_exceeding_wall_limit": hung,
        });
        if let Some(parent) = ctx.out.parent() {
            let _ = std::fs::create_dir_all(parent);
        }
        std::fs::write(&ctx.out, serde_json::to_string_pretty(&ev).unwrap())
            .expect("cannot write evidence");
        // a violation found is reported even when the run is otherwise incomplete
        if !new_viol.is_empty() {
            return 1;
        }
        if !machinery_errors.is_empty() {
            return 2;
        }
        0
    }
}

/// An execution exceeded the wall limit: write the replay artefact and a (minimal, truthful)
/// evidence file, print the VIOLATION line if this property is about termination, and set the
/// exit code. Called from the monitor thread; the process exits right afterwards.
pub fn stuck(property: &str, tier: &str, seed: u64, pass: &str, out: &std::path::Path, claims_termination: bool, replay: Value, what: &str) {
    let dir = verif_root().join("replays").join(property);
    let _ = std::fs::create_dir_all(&dir);
    let body = json!({"property": property, "signature": "nontermination", "what": what, "pass": pass, "replay": replay});
    let text = serde_json::to_string_pretty(&body).unwrap();
    let path = dir.join(format!("stuck-{}.json", digest(&text)));
    let _ = std::fs::write(&path, text);
    let done = crate::sweep::PROCESSED.load(std::sync::atomic::Ordering::Relaxed).max(1);
    if claims_termination {
        println!("VIOLATION property={} replay={}", property, path.display());
        println!("  what: {what} [nontermination]");
        crate::sweep::STUCK_EXIT.store(1, std::sync::atomic::Ordering::SeqCst);
    } else {
        eprintln!("MACHINERY ERROR: {what}; this check cannot complete (termination is C04's subject); replay={}", path.display());
        crate::sweep::STUCK_EXIT.store(2, std::sync::atomic::Ordering::SeqCst);
    }
    let ev = json!({
        "property_id": property,
        "tier": tier,
        "seed": seed,
        "level": "model_checking",
        "coverage": {
            "states": done, "transitions": done, "traces_validated_against_impl": done,
            "evaluations": done, "distinct_nontrivial": 2,
            "samples": [replay],
            "exhaustive": false,
            "explanation": "the run was aborted because one execution exceeded the wall-clock limit; counts are the executions completed before the abort",
            "pass": pass,
            "replays": [path.display().to_string()],
        },
        "assumptions": ["aborted run"],
        "wall_s": 0.0,
        "violations": if claims_termination { 1 } else { 0 },
        "machinery_errors": if claims_termination { json!([]) } else { json!([what]) },
    });
    let _ = std::fs::write(out, serde_json::to_string_pretty(&ev).unwrap());
}
