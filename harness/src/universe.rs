//! The universe model: a plain-table description of everything a
//! `DependencyProvider` can answer, plus the problem posed to the solver.
//! This is E1's alphabet and also the replay format (serde_json).

use serde::{Deserialize, Serialize};

pub type Id = u32;

#[derive(Clone, Copy, Debug, Serialize, Deserialize, PartialEq, Eq, Hash, PartialOrd, Ord)]
pub enum Req {
    Single(Id),
    Union(Id),
}

#[derive(Clone, Debug, Serialize, Deserialize, PartialEq, Eq, Hash)]
pub enum Deps {
    Known { reqs: Vec<Req>, cons: Vec<Id> },
    Unknown(Id),
}

impl Deps {
    pub fn none() -> Deps {
        Deps::Known {
            reqs: vec![],
            cons: vec![],
        }
    }
    pub fn reqs(&self) -> &[Req] {
        match self {
            Deps::Known { reqs, .. } => reqs,
            Deps::Unknown(_) => &[],
        }
    }
    pub fn cons(&self) -> &[Id] {
        match self {
            Deps::Known { cons, .. } => cons,
            Deps::Unknown(_) => &[],
        }
    }
    pub fn push_req(&mut self, r: Req) {
        if let Deps::Known { reqs, .. } = self {
            reqs.push(r)
        }
    }
    pub fn push_con(&mut self, c: Id) {
        if let Deps::Known { cons, .. } = self {
            cons.push(c)
        }
    }
}

#[derive(Clone, Debug, Serialize, Deserialize, PartialEq, Eq, Hash)]
pub enum Hint {
    None,
    All,
    Some(Vec<Id>),
}

#[derive(Clone, Debug, Serialize, Deserialize, PartialEq, Eq, Hash)]
pub struct Name {
    pub label: String,
    /// `get_candidates` answers `None`.
    pub missing: bool,
    /// candidate listing order
    pub cands: Vec<Id>,
    pub favored: Option<Id>,
    pub locked: Option<Id>,
    pub excluded: Vec<(Id, Id)>,
    pub hint: Hint,
}

#[derive(Clone, Debug, Serialize, Deserialize, PartialEq, Eq, Hash)]
pub struct Solv {
    pub name: Id,
    pub version: u32,
    /// position in the provider's total preference order (lower = tried first)
    pub rank: u32,
    pub deps: Deps,
}

#[derive(Clone, Debug, Serialize, Deserialize, PartialEq, Eq, Hash)]
pub struct VSet {
    pub name: Id,
    pub members: Vec<Id>,
    pub label: String,
}

#[derive(Clone, Debug, Default, Serialize, Deserialize, PartialEq, Eq, Hash)]
pub struct Universe {
    pub names: Vec<Name>,
    pub solvs: Vec<Solv>,
    pub vsets: Vec<VSet>,
    pub unions: Vec<Vec<Id>>,
    pub strings: Vec<String>,
}

#[derive(Clone, Debug, Default, Serialize, Deserialize, PartialEq, Eq, Hash)]
pub struct Problem {
    pub reqs: Vec<Req>,
    pub cons: Vec<Id>,
    pub soft: Vec<Id>,
}

#[derive(Clone, Debug, Serialize, Deserialize)]
pub struct Case {
    pub u: Universe,
    pub p: Problem,
    #[serde(default)]
    pub tag: String,
}

impl Universe {
    pub fn add_name(&mut self, label: &str) -> Id {
        self.names.push(Name {
            label: label.to_string(),
            missing: false,
            cands: vec![],
            favored: None,
            locked: None,
            excluded: vec![],
            hint: Hint::None,
        });
        (self.names.len() - 1) as Id
    }
    pub fn add_missing_name(&mut self, label: &str) -> Id {
        let id = self.add_name(label);
        self.names[id as usize].missing = true;
        id
    }
    /// Adds a solvable that is listed as a candidate of its package; rank is
    /// assigned so that a higher version is preferred (re-ranked on every add).
    pub fn add_solv(&mut self, name: Id, version: u32) -> Id {
        let id = self.solvs.len() as Id;
        self.solvs.push(Solv {
            name,
            version,
            rank: 0,
            deps: Deps::none(),
        });
        self.names[name as usize].cands.push(id);
        self.rerank_by_version(name);
        id
    }
    /// Adds a solvable row that is *not* listed in its package's candidates.
    pub fn add_unlisted_solv(&mut self, name: Id, version: u32) -> Id {
        let id = self.solvs.len() as Id;
        self.solvs.push(Solv {
            name,
            version,
            rank: 1000 + id,
            deps: Deps::none(),
        });
        id
    }
    pub fn rerank_by_version(&mut self, name: Id) {
        let mut c = self.names[name as usize].cands.clone();
        c.sort_by_key(|&s| std::cmp::Reverse(self.solvs[s as usize].version));
        for (i, s) in c.into_iter().enumerate() {
            self.solvs[s as usize].rank = i as u32;
        }
    }
    /// Sets the preference order of a package explicitly (first = most preferred).
    pub fn set_order(&mut self, order: &[Id]) {
        for (i, &s) in order.iter().enumerate() {
            self.solvs[s as usize].rank = i as u32;
        }
    }
    pub fn add_vset(&mut self, name: Id, members: &[Id]) -> Id {
        let mut vers: Vec<u32> = members
            .iter()
            .map(|&m| self.solvs[m as usize].version)
            .collect();
        vers.sort();
        let label = if members.is_empty() {
            "none".to_string()
        } else {
            vers.iter()
                .map(|v| v.to_string())
                .collect::<Vec<_>>()
                .join("|")
        };
        self.vsets.push(VSet {
            name,
            members: members.to_vec(),
            label,
        });
        (self.vsets.len() - 1) as Id
    }
    /// interned: returns an existing version set with the same name and member set
    pub fn vset(&mut self, name: Id, members: &[Id]) -> Id {
        let mut m = members.to_vec();
        m.sort();
        for (i, v) in self.vsets.iter().enumerate() {
            if v.name == name {
                let mut vm = v.members.clone();
                vm.sort();
                if vm == m {
                    return i as Id;
                }
            }
        }
        self.add_vset(name, members)
    }
    pub fn add_union(&mut self, members: &[Id]) -> Id {
        self.unions.push(members.to_vec());
        (self.unions.len() - 1) as Id
    }
    pub fn add_string(&mut self, s: &str) -> Id {
        if let Some(i) = self.strings.iter().position(|x| x == s) {
            return i as Id;
        }
        self.strings.push(s.to_string());
        (self.strings.len() - 1) as Id
    }
    pub fn req_vsets(&self, r: Req) -> Vec<Id> {
        match r {
            Req::Single(v) => vec![v],
            Req::Union(u) => self.unions[u as usize].clone(),
        }
    }
    pub fn solv_label(&self, s: Id) -> String {
        let sv = &self.solvs[s as usize];
        format!("{}={}", self.names[sv.name as usize].label, sv.version)
    }
    pub fn req_label(&self, r: Req) -> String {
        self.req_vsets(r)
            .iter()
            .map(|&v| {
                let vs = &self.vsets[v as usize];
                format!("{} {}", self.names[vs.name as usize].label, vs.label)
            })
            .collect::<Vec<_>>()
            .join(" | ")
    }

    /// Structural well-formedness ("well-formed provider" of C04).
    pub fn well_formed(&self, p: &Problem) -> Result<(), String> {
        let ns = self.solvs.len() as Id;
        let nv = self.vsets.len() as Id;
        let nn = self.names.len() as Id;
        for (ni, n) in self.names.iter().enumerate() {
            let ni = ni as Id;
            let mut seen = std::collections::BTreeSet::new();
            for &c in &n.cands {
                if c >= ns || self.solvs[c as usize].name != ni {
                    return Err(format!("name {ni}: candidate {c} invalid"));
                }
                if !seen.insert(c) {
                    return Err(format!("name {ni}: duplicate candidate {c}"));
                }
            }
            if n.missing && !n.cands.is_empty() {
                return Err("missing package with candidates".into());
            }
            for f in [n.favored, n.locked].into_iter().flatten() {
                if !n.cands.contains(&f) {
                    return Err(format!("name {ni}: favored/locked {f} not a candidate"));
                }
            }
            for &(s, r) in &n.excluded {
                if s >= ns || self.solvs[s as usize].name != ni || r as usize >= self.strings.len()
                {
                    return Err(format!("name {ni}: bad excluded {s}"));
                }
            }
            if let Hint::Some(h) = &n.hint {
                for s in h {
                    if !n.cands.contains(s) {
                        return Err(format!("name {ni}: hint {s} not a candidate"));
                    }
                }
            }
            // ranks must be a total order on candidates
            let mut ranks: Vec<u32> = n.cands.iter().map(|&c| self.solvs[c as usize].rank).collect();
            ranks.sort();
            ranks.dedup();
            if ranks.len() != n.cands.len() {
                return Err(format!("name {ni}: ranks not unique"));
            }
        }
        for v in &self.vsets {
            if v.name >= nn {
                return Err("vset name".into());
            }
            for &m in &v.members {
                if m >= ns || self.solvs[m as usize].name != v.name {
                    return Err("vset member of another package".into());
                }
            }
        }
        for u in &self.unions {
            if u.is_empty() || u.iter().any(|&v| v >= nv) {
                return Err("bad union".into());
            }
        }
        let chk_req = |r: &Req| -> bool {
            match *r {
                Req::Single(v) => v < nv,
                Req::Union(u) => (u as usize) < self.unions.len(),
            }
        };
        for s in &self.solvs {
            if s.name >= nn {
                return Err("solv name".into());
            }
            match &s.deps {
                Deps::Known { reqs, cons } => {
                    if !reqs.iter().all(chk_req) || cons.iter().any(|&c| c >= nv) {
                        return Err("bad dep id".into());
                    }
                }
                Deps::Unknown(r) => {
                    if *r as usize >= self.strings.len() {
                        return Err("bad string".into());
                    }
                }
            }
        }
        if !p.reqs.iter().all(chk_req) || p.cons.iter().any(|&c| c >= nv) {
            return Err("bad problem id".into());
        }
        for &s in &p.soft {
            if s >= ns || !self.names[self.solvs[s as usize].name as usize].cands.contains(&s) {
                return Err("soft solvable not a listed candidate".into());
            }
        }
        Ok(())
    }

    /// Human readable one-line-per-row rendering for evidence samples.
    pub fn describe(&self, p: &Problem) -> serde_json::Value {
        let mut rows = vec![];
        for (si, s) in self.solvs.iter().enumerate() {
            let n = &self.names[s.name as usize];
            if !n.cands.contains(&(si as Id)) && !n.excluded.iter().any(|e| e.0 == si as Id) {
                continue;
            }
            let d = match &s.deps {
                Deps::Unknown(_) => "UNKNOWN".to_string(),
                Deps::Known { reqs, cons } => {
                    let mut parts: Vec<String> =
                        reqs.iter().map(|&r| format!("req[{}]", self.req_label(r))).collect();
                    parts.extend(
                        cons.iter()
                            .map(|&c| format!("con[{}]", self.req_label(Req::Single(c)))),
                    );
                    parts.join(" ")
                }
            };
            rows.push(format!("{} rank{}: {}", self.solv_label(si as Id), s.rank, d));
        }
        let mut flags = vec![];
        for n in &self.names {
            if n.missing {
                flags.push(format!("{} missing", n.label));
            }
            if let Some(f) = n.favored {
                flags.push(format!("favored {}", self.solv_label(f)));
            }
            if let Some(f) = n.locked {
                flags.push(format!("locked {}", self.solv_label(f)));
            }
            for e in &n.excluded {
                flags.push(format!(
                    "excluded {}{}",
                    self.solv_label(e.0),
                    if n.cands.contains(&e.0) { "" } else { " (unlisted)" }
                ));
            }
            match &n.hint {
                Hint::None => {}
                Hint::All => flags.push(format!("hint {} All", n.label)),
                Hint::Some(v) => flags.push(format!(
                    "hint {} Some[{}]",
                    n.label,
                    v.iter().map(|&s| self.solv_label(s)).collect::<Vec<_>>().join(",")
                )),
            }
        }
        serde_json::json!({
            "solvables": rows,
            "flags": flags,
            "root_requires": p.reqs.iter().map(|&r| self.req_label(r)).collect::<Vec<_>>(),
            "root_constrains": p.cons.iter().map(|&c| self.req_label(Req::Single(c))).collect::<Vec<_>>(),
            "soft": p.soft.iter().map(|&s| self.solv_label(s)).collect::<Vec<_>>(),
        })
    }
}
