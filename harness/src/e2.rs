//! E2/E3/E4 over the solver's asynchronous and fault behaviour:
//! C10 (any completion order), C11 (requests issued concurrently),
//! C12 (cancellation at every poll index), C13 (solver reuse histories).

use std::collections::{BTreeSet, HashSet};
use std::hash::{Hash, Hasher};

use serde_json::json;

use crate::oracle::*;
use crate::provider::*;
use crate::run::*;
use crate::sched::{explore, ExploreStats};
use crate::sweep::{case_hash, Acc, Violation};
use crate::universe::*;

#[derive(Clone, Debug, serde::Serialize, serde::Deserialize)]
pub struct AsyncPlan {
    /// what the provider's `sort_candidates` does besides sorting (re-entrant cache use)
    pub sort_cb: SortCallback,
    /// per-package hint override (bit n = package n answers All), takes precedence over `hint`
    pub hint_mask: Option<u64>,
    pub mask: u8,
    pub pairs: bool,
    pub hint: Option<Hint>,
    /// explore the complete schedule tree if it has at most this many runs ...
    pub complete_cap: u64,
    /// ... otherwise every schedule with at most this many deviations from FIFO
    pub dev_bound: u32,
    pub dev_cap: u64,
}

fn async_cfg(plan: &AsyncPlan, prefix: &[u32]) -> RunCfg {
    RunCfg {
        runtime: Runtime::Async {
            mask: plan.mask,
            prefix: prefix.to_vec(),
            lifo: false,
            pairs: plan.pairs,
        },
        hint_override: plan.hint.clone(),
        hint_mask: plan.hint_mask,
        sort_cb: plan.sort_cb,
        log: true,
        ..RunCfg::default()
    }
}

thread_local! {
    /// which per-case check is running (function + arguments): recorded in every violation so that
    /// `replay` can re-run exactly that check on the recorded case
    static CALL: std::cell::RefCell<serde_json::Value> = const { std::cell::RefCell::new(serde_json::Value::Null) };
}

fn set_call(v: serde_json::Value) {
    CALL.with(|c| *c.borrow_mut() = v);
}

fn viol(prop: &str, sig: &str, what: String, case: &Case, detail: serde_json::Value, order: (usize, u64, u32)) -> Violation {
    Violation {
        property: prop.to_string(),
        signature: sig.to_string(),
        what,
        replay: json!({"kind": "e2", "case": case, "call": CALL.with(|c| c.borrow().clone()), "detail": detail, "universe": case.u.describe(&case.p)}),
        order,
    }
}

/// Re-runs the per-case check recorded in a violation (all schedules / cancellation points of that one
/// case) and returns the signatures it reports now.
pub fn replay(v: &serde_json::Value) -> Vec<String> {
    let case: Case = serde_json::from_value(v["case"].clone()).expect("case");
    let call = &v["call"];
    let plan = || -> AsyncPlan { serde_json::from_value(call["plan"].clone()).expect("plan") };
    let hint = || -> Option<Hint> { serde_json::from_value(call["hint"].clone()).unwrap_or(None) };
    let mut acc = Acc::default();
    let o = (0, 0, 0);
    match call["fn"].as_str() {
        Some("c10_c11") => check_c10_c11(call["prop"].as_str().unwrap_or("C10"), &case, &plan(), o, &mut acc),
        Some("c12_sync") => check_c12_sync(&case, hint(), o, &mut acc),
        Some("c12_async") => check_c12_async(&case, &plan(), o, &mut acc),
        Some("c13_sync") => check_c13_sync(&case, hint(), call["depth"].as_u64().unwrap_or(2) as usize, call["with_cancel"].as_bool().unwrap_or(true), o, &mut acc),
        Some("c13_async") => check_c13_async(&case, &plan(), o, &mut acc),
        Some("c07_async") => check_c07_async(&case, &plan(), o, &mut acc),
        Some("c08_async") => check_c08_async(&case, &plan(), o, &mut acc),
        Some("c09_cancel_reuse") => check_c09_cancel_reuse(&case, o, &mut acc),
        other => {
            eprintln!("MACHINERY ERROR: replay file names no known check ({other:?})");
            std::process::exit(2);
        }
    }
    let mut sigs: Vec<String> = acc.violations.iter().map(|v| v.signature.clone()).collect();
    sigs.sort();
    sigs.dedup();
    sigs
}

fn log_hash(log: &[Ev]) -> u64 {
    #[allow(deprecated)]
    let mut h = std::hash::SipHasher::new_with_keys(3, 4);
    for e in log {
        if matches!(e, Ev::Cands(_) | Ev::Deps(_) | Ev::CandsEnd(_) | Ev::DepsEnd(_)) {
            e.hash(&mut h);
        }
    }
    h.finish()
}

fn dup_requests(log: &[Ev]) -> Option<String> {
    let mut c = HashSet::new();
    let mut d = HashSet::new();
    for e in log {
        match e {
            Ev::Cands(n) => {
                if !c.insert(*n) {
                    return Some(format!("get_candidates(name {n}) issued twice"));
                }
            }
            Ev::Deps(s) => {
                if !d.insert(*s) {
                    return Some(format!("get_dependencies(solvable {s}) issued twice"));
                }
            }
            _ => {}
        }
    }
    None
}

/// Complete exploration when the tree is small, deviation-bounded otherwise.
/// `run` executes one schedule and returns its trace.
pub fn explore_adaptive(
    plan: &AsyncPlan,
    acc: &mut Acc,
    mut run: impl FnMut(&[u32], &mut Acc) -> Vec<(u32, u32)>,
) -> ExploreStats {
    let st = explore(None, plan.complete_cap, |p| Ok(run(p, acc))).unwrap_or_else(|e| {
        eprintln!("MACHINERY ERROR: {e}");
        std::process::exit(2)
    });
    if !st.capped {
        acc.count("instances_explored_completely");
        acc.add("schedules", st.runs);
        acc.add("quiescent_points", st.quiescent_points);
        acc.max("max:alternatives_at_a_point", st.max_alternatives as u64);
        acc.max("max:schedule_depth", st.max_depth as u64);
        return st;
    }
    let st2 = explore(Some(plan.dev_bound), plan.dev_cap, |p| Ok(run(p, acc))).unwrap_or_else(|e| {
        eprintln!("MACHINERY ERROR: {e}");
        std::process::exit(2)
    });
    acc.count("instances_deviation_bounded");
    if st2.capped {
        acc.count("instances_hit_deviation_cap");
    }
    acc.add("schedules", st.runs + st2.runs);
    acc.add("quiescent_points", st.quiescent_points + st2.quiescent_points);
    acc.max("max:alternatives_at_a_point", st2.max_alternatives as u64);
    acc.max("max:schedule_depth", st2.max_depth as u64);
    st2
}

// ---------------------------------------------------------------------------
// C10 + C11
// ---------------------------------------------------------------------------

pub fn check_c10_c11(prop: &str, case: &Case, plan: &AsyncPlan, order: (usize, u64, u32), acc: &mut Acc) {
    set_call(json!({"fn": "c10_c11", "prop": prop, "plan": plan}));
    // the same oracle serves C20 (cache use from inside sort_candidates during a solve, under every completion order)
    let label = match prop {
        "C20" => "C20",
        "C04" => "C04",
        "C09" => "C09",
        "C02" => "C02",
        _ => "C10",
    };
    // C04 only judges termination without panicking (verdicts and request counts are C10's business);
    // C09 only "each request at most once"; C02 only the verdict (it must not depend on the order in
    // which metadata happened to be fetched)
    let termination_only = prop == "C04";
    let duplicates_only = prop == "C09";
    let verdict_only = prop == "C02";
    let sem = Sem::new(&case.u, &case.p);
    let mut sync_cfg = RunCfg::default();
    sync_cfg.hint_override = plan.hint.clone();
    sync_cfg.sort_cb = plan.sort_cb;
    let reference = run_case(&case.u, &case.p, &sync_cfg);
    if matches!(reference.outcome, Outcome::Panic(_)) {
        acc.count("skipped_sync_run_panics");
        return;
    }
    let mut distinct_logs: HashSet<u64> = HashSet::new();
    let mut runs_here = 0u64;
    explore_adaptive(plan, acc, |prefix, acc| {
        let cfg = async_cfg(plan, prefix);
        let res = run_case(&case.u, &case.p, &cfg);
        acc.evaluations += 1;
        runs_here += 1;
        distinct_logs.insert(log_hash(&res.log));
        let detail = || json!({"schedule": res.trace.iter().map(|t| t.0).collect::<Vec<_>>(), "plan": format!("{plan:?}"), "outcome": res.outcome.short(), "log": format!("{:?}", res.log)});
        if duplicates_only {
            if let Some(d) = dup_requests(&res.log) {
                acc.violation(viol(label, "duplicate-request", d, case, detail(), order));
            }
        } else if verdict_only {
            match (&res.outcome, &reference.outcome) {
                (Outcome::Ok(_), Outcome::Unsat) | (Outcome::Unsat, Outcome::Ok(_)) => acc.violation(viol(label, "verdict-depends-on-fetch-order", format!("sync run says {}, this completion order says {}", reference.outcome.short(), res.outcome.short()), case, detail(), order)),
                _ => {}
            }
        } else if prop != "C11" {
            match &res.outcome {
                Outcome::Deadlock => acc.violation(viol(label, "deadlock", "solve waits for something that can never complete".into(), case, detail(), order)),
                // stopped by the wall-clock monitor (machine overloaded, or a genuine hang that the monitor
                // reports through the abandon path after re-running the case alone): not judged here
                Outcome::Horizon if crate::sweep::kill_requested() => acc.count("executions_stopped_by_the_monitor"),
                Outcome::Horizon => acc.violation(viol(label, "livelock", "poll horizon exceeded".into(), case, detail(), order)),
                Outcome::Panic(p) => acc.violation(viol(label, &format!("panic:{}:{}", p.site, p.msg), format!("async solve panicked at {}: {}", p.site, p.msg), case, detail(), order)),
                Outcome::Cancelled(_) => acc.violation(viol(label, "spurious-cancel", "Cancelled without request".into(), case, detail(), order)),
                Outcome::Ok(_) | Outcome::Unsat if termination_only => {}
                Outcome::Ok(sol) => {
                    if !reference.outcome.is_ok() {
                        acc.violation(viol(label, "verdict-differs", format!("sync run says {}, this schedule says {}", reference.outcome.short(), res.outcome.short()), case, detail(), order));
                    }
                    let sel = sem.sel_of(sol);
                    if let Err(rule) = sem.check_valid(&sel, &case.p.soft) {
                        acc.violation(viol(label, &format!("invalid:{}", rule.kind()), format!("solution under this schedule violates {rule:?}"), case, detail(), order));
                    }
                }
                Outcome::Unsat => {
                    if reference.outcome.is_ok() {
                        acc.violation(viol(label, "verdict-differs", format!("sync run says {}, this schedule says Unsolvable", reference.outcome.short()), case, detail(), order));
                    }
                }
            }
            if termination_only {
                // nothing else
            } else if let Some(d) = dup_requests(&res.log) {
                acc.violation(viol(label, "duplicate-request", d, case, detail(), order));
            }
        } else {
            check_c11_log(case, &sem, &res, plan, order, acc);
        }
        res.trace.clone()
    });
    if distinct_logs.len() >= 2 {
        acc.count("instances_with_2+_distinct_call_orders");
        acc.mark_nontrivial(case_hash(case));
    }
    acc.max("max:distinct_call_orders_per_instance", distinct_logs.len() as u64);
    acc.sample(|| json!({"universe": case.u.describe(&case.p), "schedules_explored": runs_here, "distinct_provider_call_orders": distinct_logs.len()}));
}

fn check_c11_log(case: &Case, sem: &Sem, res: &RunResult, plan: &AsyncPlan, order: (usize, u64, u32), acc: &mut Acc) {
    let u = &case.u;
    // names whose need is implied by dependency information the solver has received
    let mut implied: BTreeSet<Id> = sem.mentioned_names(&case.p.reqs, &case.p.cons);
    let mut requested: BTreeSet<Id> = BTreeSet::new();
    let mut first_q = true;
    for e in &res.log {
        match e {
            Ev::Cands(n) => {
                requested.insert(*n);
            }
            Ev::DepsEnd(s) => {
                let d = &u.solvs[*s as usize].deps;
                implied.extend(sem.mentioned_names(d.reqs(), d.cons()));
            }
            Ev::Quiescent(parked) => {
                acc.count("quiescent_points_checked");
                let pending_cands = parked.iter().filter(|p| p.0 == K_CANDS).count();
                if pending_cands >= 2 {
                    acc.count("quiescent_points_with_2+_pending_candidate_requests");
                }
                acc.max("max:fan_out", pending_cands as u64);
                let missing: Vec<&Id> = implied.difference(&requested).collect();
                if !missing.is_empty() {
                    acc.violation(viol(
                        "C11",
                        "request-serialized",
                        format!(
                            "solver is blocked with {:?} parked, but get_candidates was not yet issued for {:?} although received dependencies mention them",
                            parked,
                            missing.iter().map(|&&n| u.names[n as usize].label.clone()).collect::<Vec<_>>()
                        ),
                        case,
                        json!({"schedule": res.trace.iter().map(|t| t.0).collect::<Vec<_>>(), "plan": format!("{plan:?}"), "log": format!("{:?}", res.log)}),
                        order,
                    ));
                }
                if first_q {
                    first_q = false;
                    // explicit special case: k root requirements on k distinct packages
                    let root_names = sem.mentioned_names(&case.p.reqs, &case.p.cons);
                    if plan.mask & K_CANDS != 0 && pending_cands < root_names.len() {
                        acc.violation(viol(
                            "C11",
                            "root-fanout",
                            format!("root mentions {} packages but only {} candidate requests are in flight at the first quiescent point", root_names.len(), pending_cands),
                            case,
                            json!({"log": format!("{:?}", res.log)}),
                            order,
                        ));
                    }
                    if root_names.len() >= 2 {
                        acc.mark_nontrivial(case_hash(case));
                    }
                }
            }
            _ => {}
        }
    }
}

// ---------------------------------------------------------------------------
// C12: cancellation at every poll index
// ---------------------------------------------------------------------------

fn starts_after_fire(log: &[Ev]) -> Option<String> {
    let mut fired = false;
    for e in log {
        match e {
            Ev::Poll(_, true) => fired = true,
            Ev::Cands(n) if fired => return Some(format!("get_candidates(name {n}) started after the cancellation was observed")),
            Ev::Deps(s) if fired => return Some(format!("get_dependencies(solvable {s}) started after the cancellation was observed")),
            _ => {}
        }
    }
    None
}

fn classify_poll(log: &[Ev], k: u32) -> &'static str {
    // what follows poll k in the uncancelled baseline run
    let pos = log.iter().position(|e| matches!(e, Ev::Poll(i, _) if *i == k));
    match pos.and_then(|p| log.get(p + 1)) {
        Some(Ev::Cands(_)) => "before_get_candidates",
        Some(Ev::Deps(_)) => "before_get_dependencies",
        _ => "in_propagate",
    }
}

pub fn check_c12_sync(case: &Case, hint: Option<Hint>, order: (usize, u64, u32), acc: &mut Acc) {
    set_call(json!({"fn": "c12_sync", "hint": hint}));
    let mut cfg = RunCfg::default();
    cfg.log = true;
    cfg.hint_override = hint;
    let base = run_case(&case.u, &case.p, &cfg);
    acc.evaluations += 1;
    if matches!(base.outcome, Outcome::Panic(_)) {
        acc.count("skipped_baseline_panics");
        return;
    }
    // "if it never fires, polling has no effect": same result with a provider that keeps the default method
    {
        let mut prov = Prov::new(&case.u);
        prov.hint_override = cfg.hint_override.clone();
        let log = prov.log.clone();
        let mut solver = resolvo::Solver::new(PlainProv(prov));
        let r = std::panic::catch_unwind(std::panic::AssertUnwindSafe(|| solver.solve(to_problem(&case.p))));
        let plain = match r {
            Ok(Ok(sol)) => format!("Ok({:?})", sol.iter().map(|s| s.0).collect::<Vec<_>>()),
            Ok(Err(resolvo::UnsolvableOrCancelled::Unsolvable(_))) => "Unsolvable".to_string(),
            Ok(Err(resolvo::UnsolvableOrCancelled::Cancelled(_))) => "Cancelled(None)".to_string(),
            Err(_) => "Panic".to_string(),
        };
        let calls = |l: &[Ev]| l.iter().filter(|e| matches!(e, Ev::Cands(_) | Ev::Deps(_))).cloned().collect::<Vec<_>>();
        if plain != base.outcome.short() || calls(&log.borrow()) != calls(&base.log) {
            acc.violation(viol("C12", "polling-has-effect", format!("never-firing poll changes the run: {} vs {}", plain, base.outcome.short()), case, json!({}), order));
        }
    }
    let k_total = base.polls;
    acc.add("poll_points", k_total as u64);
    if k_total >= 2 {
        acc.mark_nontrivial(case_hash(case));
    }
    for k in 0..k_total {
        acc.count(&format!("polls_{}", classify_poll(&base.log, k)));
        for sticky in [true, false] {
            let mut c = cfg.clone();
            c.cancel = CancelPlan::At { k, sticky };
            let res = run_case(&case.u, &case.p, &c);
            acc.evaluations += 1;
            check_cancel_result(case, &res, k, sticky, &json!({"k": k, "sticky": sticky, "hint": format!("{:?}", c.hint_override)}), order, acc);
        }
    }
    acc.sample(|| json!({"universe": case.u.describe(&case.p), "poll_points": k_total}));
}

fn check_cancel_result(case: &Case, res: &RunResult, k: u32, sticky: bool, detail: &serde_json::Value, order: (usize, u64, u32), acc: &mut Acc) {
    let mut d = detail.clone();
    d["outcome"] = json!(res.outcome.short());
    d["log"] = json!(format!("{:?}", res.log));
    let fired = res.log.iter().any(|e| matches!(e, Ev::Poll(_, true)));
    if !fired {
        // the run ended before reaching poll k (possible under a different schedule): nothing to check
        acc.count("cancel_point_not_reached");
        return;
    }
    acc.count("cancellations_checked");
    match &res.outcome {
        Outcome::Cancelled(Some(t)) if *t == k => {}
        Outcome::Cancelled(t) => acc.violation(viol(
            "C12",
            "wrong-cancel-value",
            format!("cancellation signalled at poll {k} (sticky={sticky}) but Cancelled carries {t:?}"),
            case,
            d.clone(),
            order,
        )),
        Outcome::Panic(p) => acc.violation(viol("C12", &format!("panic:{}:{}", p.site, p.msg), format!("panicked after cancellation at poll {k}"), case, d.clone(), order)),
        o => acc.violation(viol(
            "C12",
            "cancel-ignored",
            format!("cancellation signalled at poll {k} (sticky={sticky}) but solve returned {}", o.short()),
            case,
            d.clone(),
            order,
        )),
    }
    if let Some(w) = starts_after_fire(&res.log) {
        acc.violation(viol("C12", "request-after-cancel", format!("poll {k} sticky={sticky}: {w}"), case, d, order));
    }
}

pub fn check_c12_async(case: &Case, plan: &AsyncPlan, order: (usize, u64, u32), acc: &mut Acc) {
    set_call(json!({"fn": "c12_async", "plan": plan}));
    let base = run_case(&case.u, &case.p, &async_cfg(plan, &[]));
    acc.evaluations += 1;
    if !matches!(base.outcome, Outcome::Ok(_) | Outcome::Unsat) {
        acc.count("skipped_baseline_not_clean");
        return;
    }
    // the number of polls can depend on the schedule: take a generous upper bound
    let k_total = base.polls + 2;
    for k in 0..k_total {
        for sticky in [true, false] {
            explore_adaptive(plan, acc, |prefix, acc| {
                let mut cfg = async_cfg(plan, prefix);
                cfg.cancel = CancelPlan::At { k, sticky };
                let res = run_case(&case.u, &case.p, &cfg);
                acc.evaluations += 1;
                if res.log.iter().any(|e| matches!(e, Ev::Quiescent(p) if !p.is_empty()))
                    && res.log.iter().any(|e| matches!(e, Ev::Poll(_, true)))
                {
                    // was something in flight when the cancellation fired?
                    let mut parked_now = 0usize;
                    for e in &res.log {
                        match e {
                            Ev::Quiescent(p) => parked_now = p.len(),
                            Ev::Release(..) => parked_now = parked_now.saturating_sub(1),
                            Ev::Poll(_, true) => {
                                if parked_now > 0 {
                                    acc.count("cancelled_while_requests_in_flight");
                                }
                                break;
                            }
                            _ => {}
                        }
                    }
                }
                match res.outcome {
                    Outcome::Horizon if crate::sweep::kill_requested() => acc.count("executions_stopped_by_the_monitor"),
                    Outcome::Deadlock | Outcome::Horizon => acc.violation(viol(
                        "C12",
                        "deadlock-on-cancel",
                        format!("cancellation at poll {k}: solve never returned"),
                        case,
                        json!({"k": k, "sticky": sticky, "schedule": prefix, "log": format!("{:?}", res.log)}),
                        order,
                    )),
                    _ => check_cancel_result(
                        case,
                        &res,
                        k,
                        sticky,
                        &json!({"k": k, "sticky": sticky, "schedule": res.trace.iter().map(|t| t.0).collect::<Vec<_>>(), "plan": format!("{plan:?}")}),
                        order,
                        acc,
                    ),
                }
                res.trace.clone()
            });
        }
    }
    acc.mark_nontrivial(case_hash(case));
}

// ---------------------------------------------------------------------------
// C13: histories of solve calls on one solver
// ---------------------------------------------------------------------------

/// The problem alphabet of a universe (at most 5 problems).
pub fn problem_alphabet(case: &Case) -> Vec<Problem> {
    let u = &case.u;
    let mut out = vec![case.p.clone()];
    let real: Vec<Id> = (0..u.names.len() as Id)
        .filter(|&n| !u.names[n as usize].missing && !u.names[n as usize].cands.is_empty())
        .collect();
    let full_vs = |n: Id| -> Option<Id> {
        (0..u.vsets.len() as Id).find(|&v| {
            u.vsets[v as usize].name == n && u.vsets[v as usize].members.len() == u.names[n as usize].cands.len() && !u.vsets[v as usize].members.is_empty()
        })
    };
    // a different package (the last one) as the only root requirement
    if let Some(&n) = real.last() {
        if let Some(v) = full_vs(n) {
            out.push(Problem { reqs: vec![Req::Single(v)], cons: vec![], soft: vec![] });
        }
    }
    // an unsatisfiable problem: two disjoint singleton version sets of one package
    'outer: for &n in &real {
        let singles: Vec<Id> = (0..u.vsets.len() as Id)
            .filter(|&v| u.vsets[v as usize].name == n && u.vsets[v as usize].members.len() == 1)
            .collect();
        for i in 0..singles.len() {
            for j in i + 1..singles.len() {
                if u.vsets[singles[i] as usize].members != u.vsets[singles[j] as usize].members {
                    out.push(Problem { reqs: vec![Req::Single(singles[i]), Req::Single(singles[j])], cons: vec![], soft: vec![] });
                    break 'outer;
                }
            }
        }
    }
    // the case's problem with a soft requirement (lowest-ranked candidate of the first package)
    if let Some(&n) = real.first() {
        let c = &u.names[n as usize].cands;
        if let Some(&s) = c.iter().max_by_key(|&&s| u.solvs[s as usize].rank) {
            let mut p = case.p.clone();
            p.soft = vec![s];
            out.push(p);
        }
    }
    // every package at once
    let all: Vec<Req> = real.iter().filter_map(|&n| full_vs(n)).map(Req::Single).collect();
    if all.len() >= 2 {
        out.push(Problem { reqs: all, cons: vec![], soft: vec![] });
    }
    out.truncate(5);
    out
}

fn fresh_verdict(u: &Universe, p: &Problem, hint: &Option<Hint>) -> Outcome {
    let mut cfg = RunCfg::default();
    cfg.hint_override = hint.clone();
    run_case(u, p, &cfg).outcome
}

fn refetch(seen_c: &mut HashSet<Id>, seen_d: &mut HashSet<Id>, log: &[Ev]) -> Option<String> {
    // metadata *obtained* by earlier calls must not be requested again
    for e in log {
        match e {
            Ev::Cands(n) if seen_c.contains(n) => return Some(format!("get_candidates(name {n}) requested again although obtained earlier")),
            Ev::Deps(s) if seen_d.contains(s) => return Some(format!("get_dependencies(solvable {s}) requested again although obtained earlier")),
            Ev::CandsEnd(n) => {
                seen_c.insert(*n);
            }
            Ev::DepsEnd(s) => {
                seen_d.insert(*s);
            }
            _ => {}
        }
    }
    None
}

/// All sequences of length <= depth over the problem alphabet on one sync solver,
/// optionally with one call cancelled at poll k (all k).
pub fn check_c13_sync(case: &Case, hint: Option<Hint>, depth: usize, with_cancel: bool, order: (usize, u64, u32), acc: &mut Acc) {
    set_call(json!({"fn": "c13_sync", "hint": hint, "depth": depth, "with_cancel": with_cancel}));
    let alphabet = problem_alphabet(case);
    let fresh: Vec<Outcome> = alphabet.iter().map(|p| fresh_verdict(&case.u, p, &hint)).collect();
    let polls: Vec<u32> = alphabet
        .iter()
        .map(|p| {
            let mut cfg = RunCfg::default();
            cfg.hint_override = hint.clone();
            run_case(&case.u, p, &cfg).polls
        })
        .collect();
    let n = alphabet.len();
    // every sequence of length 2..=depth (single calls are prefixes of those)
    let mut seqs: Vec<Vec<usize>> = vec![];
    let mut frontier: Vec<Vec<usize>> = vec![vec![]];
    for len in 1..=depth {
        let mut next = vec![];
        for s in &frontier {
            for a in 0..n {
                let mut t = s.clone();
                t.push(a);
                next.push(t);
            }
        }
        if len >= 2 || depth == 1 {
            seqs.extend(next.iter().cloned());
        }
        frontier = next;
    }
    acc.sample(|| json!({"universe": case.u.describe(&case.p), "problem_alphabet": alphabet, "histories": seqs.len(), "fresh_solver_results": fresh.iter().map(|o| o.short()).collect::<Vec<_>>()}));
    for seq in seqs {
        // variants: no cancellation, or call i (not the last) cancelled at poll k
        let mut variants: Vec<Option<(usize, u32)>> = vec![None];
        if with_cancel {
            for i in 0..seq.len() - 1 {
                for k in 0..polls[seq[i]] {
                    variants.push(Some((i, k)));
                }
            }
        }
        for var in variants {
            run_history_sync(case, &hint, &alphabet, &fresh, &seq, var, order, acc);
        }
    }
    acc.mark_nontrivial(case_hash(case));
}

#[allow(clippy::too_many_arguments)]
fn run_history_sync(
    case: &Case,
    hint: &Option<Hint>,
    alphabet: &[Problem],
    fresh: &[Outcome],
    seq: &[usize],
    cancel: Option<(usize, u32)>,
    order: (usize, u64, u32),
    acc: &mut Acc,
) {
    let mut cfg = RunCfg::default();
    cfg.hint_override = hint.clone();
    cfg.log = true;
    // conflicts reported by later calls must be as truthful as a fresh solver's (C03's oracle)
    cfg.render = true;
    // ... and the clause database each call leaves behind as well-formed (watch lists, trail)
    cfg.dump = true;
    let mut session = Session::new(&case.u, &cfg);
    let mut seen_c = HashSet::new();
    let mut seen_d = HashSet::new();
    acc.count("histories");
    for (i, &a) in seq.iter().enumerate() {
        let plan = match cancel {
            Some((ci, k)) if ci == i => CancelPlan::At { k, sticky: true },
            _ => CancelPlan::Never,
        };
        let res = session.solve(&alphabet[a], plan, vec![]);
        acc.evaluations += 1;
        let detail = || json!({"history": seq, "call": i, "cancel": format!("{cancel:?}"), "hint": format!("{hint:?}"), "problems": alphabet, "outcome": res.outcome.short(), "fresh": fresh[a].short()});
        if plan != CancelPlan::Never {
            if !matches!(res.outcome, Outcome::Cancelled(_)) {
                // cancellation correctness itself is C12's business
                acc.count("cancelled_call_did_not_cancel");
            } else {
                acc.count("histories_with_cancelled_call");
            }
        } else {
            let p = &alphabet[a];
            let sem = Sem::new(&case.u, p);
            if matches!(fresh[a], Outcome::Panic(_)) {
                acc.count("skipped_fresh_solver_panics");
            } else {
                match (&res.outcome, &fresh[a]) {
                    (Outcome::Ok(sol), Outcome::Ok(_)) => {
                        let sel = sem.sel_of(sol);
                        if let Err(rule) = sem.check_valid(&sel, &p.soft) {
                            acc.violation(viol("C13", &format!("invalid:{}", rule.kind()), format!("call {i} of history {seq:?}: solution violates {rule:?}"), case, detail(), order));
                        }
                    }
                    (Outcome::Unsat, Outcome::Unsat) => {
                        if i > 0 {
                            acc.count("conflicts_of_later_calls_checked");
                            if let Some(pi) = &res.render_panic {
                                acc.violation(viol("C13", &format!("render-panic-on-reused-solver:{}:{}", pi.stage, pi.site), format!("call {i} of history {seq:?}: rendering the conflict panicked ({} at {})", pi.msg, pi.site), case, detail(), order));
                            } else if let Some(g) = &res.rendered.graph {
                                if let Err((sig, what)) = crate::e1::check_graph(&sem, g, acc) {
                                    acc.violation(viol("C13", &format!("conflict-on-reused-solver:{sig}"), format!("call {i} of history {seq:?}: {what}"), case, detail(), order));
                                }
                            }
                        }
                    }
                    (Outcome::Panic(pi), _) => acc.violation(viol(
                        "C13",
                        &format!("panic:{}:{}", pi.site, pi.msg),
                        format!("call {i} of history {seq:?} panicked ({} at {}) but a fresh solver answers {}", pi.msg, pi.site, fresh[a].short()),
                        case,
                        detail(),
                        order,
                    )),
                    (o, f) => acc.violation(viol(
                        "C13",
                        "verdict-differs-from-fresh",
                        format!("call {i} of history {seq:?} returned {} but a fresh solver returns {}", o.short(), f.short()),
                        case,
                        detail(),
                        order,
                    )),
                }
            }
            if i > 0 && res.log.iter().all(|e| !matches!(e, Ev::Cands(_) | Ev::Deps(_))) {
                acc.count("later_calls_served_entirely_from_cache");
            }
        }
        if let Some(d) = &res.dump {
            if i > 0 {
                acc.count("clause_databases_of_later_calls_checked");
                let r = crate::e1::check_watches(d).and_then(|_| crate::e1::check_trail_levels(d));
                if let Err((sig, what)) = r {
                    acc.violation(viol("C13", &format!("state-on-reused-solver:{sig}"), format!("call {i} of history {seq:?}: {what}"), case, detail(), order));
                }
            }
        }
        if let Some(w) = refetch(&mut seen_c, &mut seen_d, &res.log) {
            acc.violation(viol("C13", "refetch", format!("call {i} of history {seq:?}: {w}"), case, detail(), order));
        }
        if matches!(res.outcome, Outcome::Panic(_)) {
            break;
        }
    }
}

/// Async: [P1 cancelled at poll k under schedule sigma, P2 FIFO] for all (k, sigma).
/// C09 "each at most once per solver ... over successive solves on one solver": the case's problem is
/// solved with the provider signalling cancellation from poll k on (every k), the signal is withdrawn
/// and the same problem is solved again on the same solver; no get_candidates / get_dependencies
/// request may be repeated over the two calls (whatever the first call had been answered is kept).
pub fn check_c09_cancel_reuse(case: &Case, order: (usize, u64, u32), acc: &mut Acc) {
    set_call(json!({"fn": "c09_cancel_reuse"}));
    let base = run_case(&case.u, &case.p, &RunCfg::default());
    if matches!(base.outcome, Outcome::Panic(_)) {
        return;
    }
    for k in 0..base.polls {
        let mut cfg = RunCfg::default();
        cfg.log = true;
        let mut session = Session::new(&case.u, &cfg);
        let mut seen_c = HashSet::new();
        let mut seen_d = HashSet::new();
        acc.count("histories");
        for (i, plan) in [CancelPlan::At { k, sticky: true }, CancelPlan::Never].into_iter().enumerate() {
            let res = session.solve(&case.p, plan, vec![]);
            acc.evaluations += 1;
            if let Some(w) = refetch(&mut seen_c, &mut seen_d, &res.log) {
                acc.violation(viol(
                    "C09",
                    "duplicate-request:after-cancelled-solve",
                    format!("solve cancelled from poll {k} on, then solved again on the same solver: call {i}: {w}"),
                    case,
                    json!({"cancel_from_poll": k, "call": i}),
                    order,
                ));
                return;
            }
            if matches!(res.outcome, Outcome::Panic(_)) {
                break;
            }
        }
    }
}

pub fn check_c13_async(case: &Case, plan: &AsyncPlan, order: (usize, u64, u32), acc: &mut Acc) {
    set_call(json!({"fn": "c13_async", "plan": plan}));
    let alphabet = problem_alphabet(case);
    let base = run_case(&case.u, &case.p, &async_cfg(plan, &[]));
    if !matches!(base.outcome, Outcome::Ok(_) | Outcome::Unsat) {
        acc.count("skipped_baseline_not_clean");
        return;
    }
    let fresh: Vec<Outcome> = alphabet.iter().map(|p| fresh_verdict(&case.u, p, &plan.hint)).collect();
    for k in 0..base.polls + 1 {
        for (a2, p2) in alphabet.iter().enumerate().take(3) {
            explore_adaptive(plan, acc, |prefix, acc| {
                let cfg = async_cfg(plan, &[]);
                let mut session = Session::new(&case.u, &cfg);
                let r1 = session.solve(&case.p, CancelPlan::At { k, sticky: true }, prefix.to_vec());
                acc.evaluations += 1;
                acc.count("histories");
                let trace = r1.trace.clone();
                let in_flight = {
                    let mut parked_now = 0usize;
                    let mut hit = false;
                    for e in &r1.log {
                        match e {
                            Ev::Quiescent(p) => parked_now = p.len(),
                            Ev::Release(..) => parked_now = parked_now.saturating_sub(1),
                            Ev::Poll(_, true) => {
                                hit = parked_now > 0;
                                break;
                            }
                            _ => {}
                        }
                    }
                    hit
                };
                if in_flight {
                    acc.count("histories_cancelled_with_requests_in_flight");
                }
                if matches!(r1.outcome, Outcome::Deadlock | Outcome::Horizon | Outcome::Panic(_)) {
                    // the first (cancelled) call itself misbehaving is C12's/C10's subject; skip
                    acc.count("first_call_did_not_return");
                    return trace;
                }
                let r2 = session.solve(p2, CancelPlan::Never, vec![]);
                acc.evaluations += 1;
                let detail = || json!({"first_call": "case problem", "cancel_at_poll": k, "schedule": trace.iter().map(|t| t.0).collect::<Vec<_>>(), "second_problem": p2, "second_outcome": r2.outcome.short(), "fresh": fresh[a2].short(), "log1": format!("{:?}", r1.log), "log2": format!("{:?}", r2.log)});
                if matches!(fresh[a2], Outcome::Panic(_)) {
                    return trace;
                }
                match (&r2.outcome, &fresh[a2]) {
                    (Outcome::Ok(sol), Outcome::Ok(_)) => {
                        let sem = Sem::new(&case.u, p2);
                        if let Err(rule) = sem.check_valid(&sem.sel_of(sol), &p2.soft) {
                            acc.violation(viol("C13", &format!("invalid:{}", rule.kind()), format!("solve after a cancelled solve: solution violates {rule:?}"), case, detail(), order));
                        }
                    }
                    (Outcome::Unsat, Outcome::Unsat) => {}
                    (Outcome::Horizon, _) if crate::sweep::kill_requested() => acc.count("executions_stopped_by_the_monitor"),
                    (Outcome::Deadlock, _) | (Outcome::Horizon, _) => acc.violation(viol(
                        "C13",
                        "deadlock-after-cancel",
                        format!("solve after a solve cancelled at poll {k} never returns (waits for a request that was abandoned)"),
                        case,
                        detail(),
                        order,
                    )),
                    (Outcome::Panic(pi), _) => acc.violation(viol("C13", &format!("panic:{}:{}", pi.site, pi.msg), format!("solve after a cancelled solve panicked: {} at {}", pi.msg, pi.site), case, detail(), order)),
                    (o, f) => acc.violation(viol("C13", "verdict-differs-from-fresh", format!("solve after a cancelled solve returned {} but a fresh solver returns {}", o.short(), f.short()), case, detail(), order)),
                }
                trace
            });
        }
    }
    acc.mark_nontrivial(case_hash(case));
}

// ---------------------------------------------------------------------------
// C07 under every completion order (union members must be tried in their listed order
// whatever order their candidate lists arrive in)
// ---------------------------------------------------------------------------

pub fn check_c07_async(case: &Case, plan: &AsyncPlan, order: (usize, u64, u32), acc: &mut Acc) {
    set_call(json!({"fn": "c07_async", "plan": plan}));
    if !case.p.soft.is_empty() {
        return;
    }
    let sem = Sem::new(&case.u, &case.p);
    let Some(expect) = sem.conflict_free(&[]) else {
        return;
    };
    acc.count("premise_holds");
    acc.mark_nontrivial(case_hash(case));
    let mut distinct_logs: HashSet<u64> = HashSet::new();
    explore_adaptive(plan, acc, |prefix, acc| {
        let cfg = async_cfg(plan, prefix);
        let res = run_case(&case.u, &case.p, &cfg);
        acc.evaluations += 1;
        distinct_logs.insert(log_hash(&res.log));
        if let Outcome::Ok(sol) = &res.outcome {
            let got: BTreeSet<Id> = sol.iter().copied().collect();
            if got != expect {
                acc.violation(viol(
                    "C07",
                    "not-first-choice:schedule",
                    format!(
                        "preferred candidates are compatible {:?} but under this completion order solve returned {:?}",
                        expect.iter().map(|&x| case.u.solv_label(x)).collect::<Vec<_>>(),
                        sol.iter().map(|&x| case.u.solv_label(x)).collect::<Vec<_>>()
                    ),
                    case,
                    json!({"schedule": res.trace.iter().map(|t| t.0).collect::<Vec<_>>(), "plan": format!("{plan:?}"), "log": format!("{:?}", res.log)}),
                    order,
                ));
            }
        } else if matches!(res.outcome, Outcome::Unsat) {
            acc.violation(viol("C07", "unsat-on-conflict-free:schedule", "Unsolvable under this completion order".into(), case, json!({"schedule": res.trace.iter().map(|t| t.0).collect::<Vec<_>>()}), order));
        }
        res.trace.clone()
    });
    if distinct_logs.len() >= 2 {
        acc.count("instances_with_2+_distinct_call_orders");
    }
}

// ---------------------------------------------------------------------------
// C08 under completion orders (direct requirements keep their best candidate whatever order the
// metadata arrives in)
// ---------------------------------------------------------------------------

pub fn check_c08_async(case: &Case, plan: &AsyncPlan, order: (usize, u64, u32), acc: &mut Acc) {
    set_call(json!({"fn": "c08_async", "plan": plan}));
    if !case.p.soft.is_empty() || !case.p.reqs.iter().all(|r| matches!(r, Req::Single(_))) {
        return;
    }
    let sem = Sem::new(&case.u, &case.p);
    let firsts: Option<Vec<Id>> = case.p.reqs.iter().map(|&r| sem.first(r)).collect();
    let Some(mut f) = firsts else { return };
    f.sort();
    f.dedup();
    if f.is_empty() || !sem.sat_with(&f) {
        return;
    }
    acc.count("premise_holds");
    acc.mark_nontrivial(case_hash(case));
    explore_adaptive(plan, acc, |prefix, acc| {
        let cfg = async_cfg(plan, prefix);
        let res = run_case(&case.u, &case.p, &cfg);
        acc.evaluations += 1;
        match &res.outcome {
            Outcome::Ok(sol) => {
                let missing: Vec<String> = f.iter().filter(|x| !sol.contains(x)).map(|&x| case.u.solv_label(x)).collect();
                if !missing.is_empty() {
                    acc.violation(viol(
                        "C08",
                        "direct-downgraded:schedule",
                        format!("a solution with the best candidates of all direct requirements exists, but under this completion order {missing:?} not selected"),
                        case,
                        json!({"schedule": res.trace.iter().map(|t| t.0).collect::<Vec<_>>(), "plan": format!("{plan:?}"), "outcome": res.outcome.short()}),
                        order,
                    ));
                }
            }
            Outcome::Unsat => acc.violation(viol("C08", "unsat-but-sat:schedule", "Unsolvable under this completion order although a solution exists".into(), case, json!({"schedule": res.trace.iter().map(|t| t.0).collect::<Vec<_>>(), "plan": format!("{plan:?}")}), order)),
            _ => {}
        }
        res.trace.clone()
    });
}
