//! Runs the real solver on one case under one configuration and captures
//! everything observable: result, provider call log, conflict graph, rendered
//! messages, clause database, schedule trace, panic site.

use std::{
    cell::RefCell,
    fmt::Write as _,
    panic::{catch_unwind, AssertUnwindSafe},
    rc::Rc,
};

use petgraph::visit::EdgeRef;
use resolvo::{
    conflict::{ConflictCause, ConflictEdge, ConflictNode},
    Problem as RProblem, SolvableId, Solver, UnsolvableOrCancelled, VerifDump, VersionSetId,
};

use crate::provider::*;
use crate::sched::{Controller, CtlRuntime, Policy, SchedAbort};
use crate::universe::*;

#[derive(Clone, Debug, PartialEq, serde::Serialize, serde::Deserialize)]
pub enum Runtime {
    Sync,
    /// controlled executor; yield mask; schedule prefix; default policy; pair releases
    Async {
        mask: u8,
        prefix: Vec<u32>,
        lifo: bool,
        pairs: bool,
    },
}

#[derive(Clone, Debug, PartialEq, serde::Serialize, serde::Deserialize)]
pub struct RunCfg {
    pub runtime: Runtime,
    pub hint_override: Option<Hint>,
    #[serde(default)]
    pub hint_mask: Option<u64>,
    pub activity: Option<(f32, f32)>,
    pub cancel: CancelPlan,
    pub sort_cb: SortCallback,
    /// the provider's cancellation flag is raised (for good) between the solve that returned
    /// Unsolvable and the rendering of its conflict - e.g. a deadline that passes meanwhile
    #[serde(default)]
    pub cancel_before_render: bool,
    /// render graph / graphviz / message on Unsolvable
    pub render: bool,
    pub dump: bool,
    pub log: bool,
}

impl Default for RunCfg {
    fn default() -> Self {
        RunCfg {
            runtime: Runtime::Sync,
            hint_override: None,
            hint_mask: None,
            activity: None,
            cancel: CancelPlan::Never,
            sort_cb: SortCallback::None,
            cancel_before_render: false,
            render: false,
            dump: false,
            log: false,
        }
    }
}

#[derive(Clone, Debug, PartialEq, Eq, Hash, PartialOrd, Ord, serde::Serialize)]
pub enum GNode {
    Root,
    Solv(Id),
    Unresolved,
    Excluded(Id),
}

#[derive(Clone, Debug, PartialEq, Eq, Hash, serde::Serialize)]
pub enum GEdge {
    Requires(Req),
    Constrains(Id),
    Locked(Id),
    Forbid,
    Excluded,
}

#[derive(Clone, Debug, Default, serde::Serialize)]
pub struct Graph {
    pub nodes: Vec<GNode>,
    pub edges: Vec<(usize, usize, GEdge)>,
    pub root: usize,
    pub unresolved: Option<usize>,
}

#[derive(Clone, Debug, Default, serde::Serialize)]
pub struct Rendered {
    pub graph: Option<Graph>,
    pub message: Option<String>,
    pub message_overflow: bool,
    pub graphviz: Option<String>,
    pub graphviz_simplified: Option<String>,
}

#[derive(Clone, Debug, serde::Serialize)]
pub struct PanicInfo {
    pub site: String,
    pub msg: String,
    /// which stage panicked: solve / graph / message / graphviz
    pub stage: &'static str,
}

#[derive(Clone, Debug, serde::Serialize)]
pub enum Outcome {
    Ok(Vec<Id>),
    Unsat,
    Cancelled(Option<u32>),
    Panic(PanicInfo),
    Deadlock,
    Horizon,
}

impl Outcome {
    pub fn short(&self) -> String {
        match self {
            Outcome::Ok(v) => format!("Ok({v:?})"),
            Outcome::Unsat => "Unsolvable".into(),
            Outcome::Cancelled(k) => format!("Cancelled({k:?})"),
            Outcome::Panic(p) => format!("Panic[{}]({} @ {})", p.stage, p.msg, p.site),
            Outcome::Deadlock => "Deadlock".into(),
            Outcome::Horizon => "Horizon".into(),
        }
    }
    pub fn is_ok(&self) -> bool {
        matches!(self, Outcome::Ok(_))
    }
}

pub struct RunResult {
    pub outcome: Outcome,
    pub rendered: Rendered,
    /// a panic in a rendering stage (the solve outcome itself is in `outcome`)
    pub render_panic: Option<PanicInfo>,
    pub log: Vec<Ev>,
    pub polls: u32,
    pub dump: Option<VerifDump>,
    pub trace: Vec<(u32, u32)>,
    pub max_parked: usize,
}

// ---------------------------------------------------------------------------
// panic capture
// ---------------------------------------------------------------------------

thread_local! {
    static LAST_PANIC: RefCell<Option<(String, String)>> = const { RefCell::new(None) };
}

pub fn install_panic_hook() {
    std::panic::set_hook(Box::new(|info| {
        if info.payload().downcast_ref::<SchedAbort>().is_some() {
            return;
        }
        let site = info
            .location()
            .map(|l| {
                let f = l.file();
                let f = f.rsplit_once("/repo/").map(|x| x.1).unwrap_or(f);
                format!("{}:{}", f, l.line())
            })
            .unwrap_or_default();
        let msg = if let Some(s) = info.payload().downcast_ref::<&str>() {
            s.to_string()
        } else if let Some(s) = info.payload().downcast_ref::<String>() {
            s.clone()
        } else {
            "<non-string panic>".to_string()
        };
        LAST_PANIC.with(|p| *p.borrow_mut() = Some((site, msg)));
    }));
}

pub fn guarded<T>(stage: &'static str, f: impl FnOnce() -> T) -> Result<T, Result<SchedAbort, PanicInfo>> {
    LAST_PANIC.with(|p| *p.borrow_mut() = None);
    match catch_unwind(AssertUnwindSafe(f)) {
        Ok(v) => Ok(v),
        Err(payload) => {
            if let Some(a) = payload.downcast_ref::<SchedAbort>() {
                return Err(Ok(*a));
            }
            let (site, msg) = LAST_PANIC
                .with(|p| p.borrow_mut().take())
                .unwrap_or_else(|| ("?".into(), "?".into()));
            // keep messages short and free of addresses so they are usable as signatures
            let msg: String = msg.lines().next().unwrap_or("").chars().take(160).collect();
            Err(Err(PanicInfo { site, msg, stage }))
        }
    }
}

// ---------------------------------------------------------------------------
// capped sink
// ---------------------------------------------------------------------------

pub struct CapSink {
    pub buf: String,
    pub cap: usize,
    pub overflow: bool,
}
impl std::fmt::Write for CapSink {
    fn write_str(&mut self, s: &str) -> std::fmt::Result {
        if self.buf.len() + s.len() > self.cap {
            self.overflow = true;
            return Err(std::fmt::Error);
        }
        self.buf.push_str(s);
        Ok(())
    }
}
pub struct CapIo {
    pub buf: Vec<u8>,
    pub cap: usize,
}
impl std::io::Write for CapIo {
    fn write(&mut self, b: &[u8]) -> std::io::Result<usize> {
        if self.buf.len() + b.len() > self.cap {
            return Err(std::io::Error::new(std::io::ErrorKind::Other, "cap"));
        }
        self.buf.extend_from_slice(b);
        Ok(b.len())
    }
    fn flush(&mut self) -> std::io::Result<()> {
        Ok(())
    }
}

pub const RENDER_CAP: usize = 1 << 20;

// ---------------------------------------------------------------------------

pub fn to_problem(p: &Problem) -> RProblem<Vec<SolvableId>> {
    RProblem::new()
        .requirements(p.reqs.iter().map(|&r| to_req(r)).collect())
        .constraints(p.cons.iter().map(|&c| VersionSetId(c)).collect())
        .soft_requirements(p.soft.iter().map(|&s| SolvableId(s)).collect::<Vec<_>>())
}

pub fn extract_graph(g: &resolvo::conflict::ConflictGraph) -> Graph {
    let mut out = Graph::default();
    let mut idx = std::collections::HashMap::new();
    for nx in g.graph.node_indices() {
        let n = match g.graph[nx] {
            ConflictNode::Solvable(s) => match s.solvable() {
                None => GNode::Root,
                Some(s) => GNode::Solv(s.0),
            },
            ConflictNode::UnresolvedDependency => GNode::Unresolved,
            ConflictNode::Excluded(r) => GNode::Excluded(r.0),
        };
        idx.insert(nx, out.nodes.len());
        out.nodes.push(n);
    }
    out.root = idx[&g.root_node];
    out.unresolved = g.unresolved_node.map(|n| idx[&n]);
    for e in g.graph.edge_references() {
        let w = match e.weight() {
            ConflictEdge::Requires(r) => GEdge::Requires(from_req(*r)),
            ConflictEdge::Conflict(ConflictCause::Constrains(v)) => GEdge::Constrains(v.0),
            ConflictEdge::Conflict(ConflictCause::Locked(s)) => GEdge::Locked(s.0),
            ConflictEdge::Conflict(ConflictCause::ForbidMultipleInstances) => GEdge::Forbid,
            ConflictEdge::Conflict(ConflictCause::Excluded) => GEdge::Excluded,
        };
        out.edges.push((idx[&e.source()], idx[&e.target()], w));
    }
    out
}

pub enum SolverKind<'u> {
    Sync(Solver<Prov<'u>>),
    Async(Solver<Prov<'u>, CtlRuntime>),
}

/// One solver instance that can be asked to solve several problems in a row.
pub struct Session<'u> {
    pub solver: SolverKind<'u>,
    pub log: Rc<RefCell<Vec<Ev>>>,
    pub ctl: Option<Rc<Controller>>,
    pub cfg: RunCfg,
}

impl<'u> Session<'u> {
    pub fn new(u: &'u Universe, cfg: &RunCfg) -> Self {
        let mut prov = Prov::new(u);
        prov.cancel.set(cfg.cancel);
        prov.sort_cb = cfg.sort_cb;
        prov.hint_override = cfg.hint_override.clone();
        prov.hint_mask = cfg.hint_mask;
        prov.logging = cfg.log;
        let log = prov.log.clone();
        match &cfg.runtime {
            Runtime::Sync => {
                let mut solver = Solver::new(prov);
                if let Some((a, d)) = cfg.activity {
                    solver = solver.with_activity_params(a, d);
                }
                Session {
                    solver: SolverKind::Sync(solver),
                    log,
                    ctl: None,
                    cfg: cfg.clone(),
                }
            }
            Runtime::Async {
                mask,
                prefix,
                lifo,
                pairs,
            } => {
                let ctl = Controller::new(
                    prefix.clone(),
                    if *lifo { Policy::Lifo } else { Policy::Fifo },
                    *pairs,
                );
                if cfg.log {
                    *ctl.log.borrow_mut() = Some(log.clone());
                }
                prov.ctl = Some(ctl.clone());
                prov.mask = *mask;
                let mut solver = Solver::new(prov).with_runtime(CtlRuntime(ctl.clone()));
                if let Some((a, d)) = cfg.activity {
                    solver = solver.with_activity_params(a, d);
                }
                Session {
                    solver: SolverKind::Async(solver),
                    log,
                    ctl: Some(ctl),
                    cfg: cfg.clone(),
                }
            }
        }
    }
    pub fn provider(&self) -> &Prov<'u> {
        match &self.solver {
            SolverKind::Sync(s) => s.provider(),
            SolverKind::Async(s) => s.provider(),
        }
    }
    /// One `solve` call: cancellation plan and schedule prefix apply to this call only.
    pub fn solve(&mut self, p: &Problem, cancel: CancelPlan, prefix: Vec<u32>) -> RunResult {
        self.provider().cancel.set(cancel);
        self.provider().polls.set(0);
        if let Some(c) = &self.ctl {
            c.reset_schedule(prefix);
        }
        let cfg = self.cfg.clone();
        let (outcome, rendered, render_panic) = match &mut self.solver {
            SolverKind::Sync(s) => solve_on(s, p, &cfg),
            SolverKind::Async(s) => solve_on(s, p, &cfg),
        };
        let dump = if cfg.dump && !matches!(outcome, Outcome::Panic(_) | Outcome::Deadlock | Outcome::Horizon) {
            match &self.solver {
                SolverKind::Sync(s) => guarded("dump", || s.verif_dump()).ok(),
                SolverKind::Async(s) => guarded("dump", || s.verif_dump()).ok(),
            }
        } else {
            None
        };
        let polls = self.provider().polls.get();
        let (trace, max_parked) = match &self.ctl {
            Some(c) => (c.trace.borrow().clone(), c.max_parked.get()),
            None => (vec![], 0),
        };
        let log = std::mem::take(&mut *self.log.borrow_mut());
        RunResult {
            outcome,
            rendered,
            render_panic,
            log,
            polls,
            dump,
            trace,
            max_parked,
        }
    }
}

/// One solve on a fresh solver.
pub fn run_case(u: &Universe, p: &Problem, cfg: &RunCfg) -> RunResult {
    let prefix = match &cfg.runtime {
        Runtime::Async { prefix, .. } => prefix.clone(),
        _ => vec![],
    };
    Session::new(u, cfg).solve(p, cfg.cancel, prefix)
}

pub fn solve_on<RT: resolvo::runtime::AsyncRuntime>(
    solver: &mut Solver<Prov<'_>, RT>,
    p: &Problem,
    cfg: &RunCfg,
) -> (Outcome, Rendered, Option<PanicInfo>) {
    let mut rendered = Rendered::default();
    let mut render_panic = None;
    let res = guarded("solve", || solver.solve(to_problem(p)));
    let outcome = match res {
        Err(Ok(SchedAbort::Deadlock)) => Outcome::Deadlock,
        Err(Ok(SchedAbort::Horizon)) => Outcome::Horizon,
        Err(Ok(SchedAbort::Divergence)) => {
            eprintln!("MACHINERY ERROR: schedule divergence while replaying a prefix");
            std::process::exit(2);
        }
        Err(Err(pi)) => Outcome::Panic(pi),
        Ok(Ok(sol)) => Outcome::Ok(sol.into_iter().map(|s| s.0).collect()),
        Ok(Err(UnsolvableOrCancelled::Cancelled(v))) => {
            if v.downcast_ref::<Killed>().is_some() {
                // stopped by the wall-clock monitor: the solve was looping
                Outcome::Horizon
            } else {
                Outcome::Cancelled(v.downcast_ref::<Token>().map(|t| t.0))
            }
        }
        Ok(Err(UnsolvableOrCancelled::Unsolvable(conflict))) => {
            if cfg.render && cfg.cancel_before_render {
                solver.provider().cancel.set(CancelPlan::At { k: 0, sticky: true });
            }
            if cfg.render {
                match guarded("graph", || conflict.graph(solver)) {
                    Err(Err(pi)) => render_panic = Some(pi),
                    Err(Ok(_)) => {
                        render_panic = Some(PanicInfo {
                            site: "sched".into(),
                            msg: "graph() blocked on the provider".into(),
                            stage: "graph",
                        })
                    }
                    Ok(g) => {
                        rendered.graph = Some(extract_graph(&g));
                        for simplify in [false, true] {
                            let r = guarded("graphviz", || {
                                let mut sink = CapIo {
                                    buf: Vec::new(),
                                    cap: RENDER_CAP,
                                };
                                let r = g.graphviz(&mut sink, solver.provider(), simplify);
                                (r.is_ok(), sink.buf)
                            });
                            match r {
                                Ok((ok, buf)) => {
                                    let s = String::from_utf8_lossy(&buf).to_string();
                                    if !ok {
                                        rendered.message_overflow = true;
                                    }
                                    if simplify {
                                        rendered.graphviz_simplified = Some(s)
                                    } else {
                                        rendered.graphviz = Some(s)
                                    }
                                }
                                Err(Err(pi)) => render_panic = Some(pi),
                                Err(Ok(_)) => {}
                            }
                        }
                        let r = guarded("message", || {
                            let d = conflict.display_user_friendly(solver);
                            let mut sink = CapSink {
                                buf: String::new(),
                                cap: RENDER_CAP,
                                overflow: false,
                            };
                            let _ = write!(sink, "{}", d);
                            (sink.buf, sink.overflow)
                        });
                        match r {
                            Ok((s, overflow)) => {
                                rendered.message = Some(s);
                                rendered.message_overflow |= overflow;
                            }
                            Err(Err(pi)) => render_panic = Some(pi),
                            Err(Ok(_)) => {}
                        }
                    }
                }
            }
            Outcome::Unsat
        }
    };
    (outcome, rendered, render_panic)
}

