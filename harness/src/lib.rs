#![allow(dead_code)]
//! Library part of the resolvo model-checking harness (shared with the C++ driver of C17).
pub mod e1;
pub mod e15;
pub mod e16;
pub mod e2;
pub mod e4;
pub mod e6;
pub mod families;
pub mod oracle;
pub mod plans;
pub mod provider;
pub mod report;
pub mod run;
pub mod sched;
pub mod sweep;
pub mod universe;
