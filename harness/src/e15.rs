//! C15 (F6): one package with n candidates, revealed to the solver through
//! requirements in many orders / groupings; every pair must be mutually
//! exclusive, every single one selectable. Expected verdicts are explicit.

use serde_json::json;

use crate::e1::check_clauses;
use crate::oracle::Sem;
use crate::report::{Ctx, Report, Tier};
use crate::provider::CancelPlan;
use crate::run::*;
use crate::sweep::*;
use crate::universe::*;
use crate::families::Family;

#[derive(Clone, Debug, serde::Serialize, serde::Deserialize)]
pub enum Shape {
    /// one requirement reveals all candidates at once
    AllAtOnce,
    /// n singleton requirements, candidate order[k] revealed k-th
    Singles(Vec<u32>),
    /// blocks of the given size, in order
    Blocks(usize),
    /// first k revealed at the root, the rest by a dependency of a solvable selected later
    TwoPhase(usize),
    /// the rest is revealed by the dependencies of x=2, which is tried first and
    /// abandoned (it also requires a missing package), so discovery happens under
    /// decisions that are reverted afterwards; x=1 carries the test requirements
    RevertedDiscovery(usize),
    /// the wanted candidates are ruled out (constrains of a sibling s=2 whose dependencies are hinted
    /// as available) at the moment the lazily fetched r=1 reveals them through its requirements; s=2 is
    /// then abandoned (r=1 is the only candidate of r), so the candidates become selectable again
    FalseWhenRevealed,
    /// overlapping revelations: the first k candidates, then all of them (the first k a second time)
    Overlap(usize),
    /// growing prefixes [0..1), [0..2), ... (step 1) or [0..1), [0..2), [0..4), ... (doubling), then all
    Growing(bool),
    /// everything revealed twice through two different version sets
    Twice,
    /// the wanted singletons are listed before the requirement that reveals the package
    WantFirst,
    /// the second wanted candidate is never pinned by a singleton: requirements {i}, {i, j} (met by i
    /// already; j is revealed next to a known candidate) and {j, j'} (forces j or its neighbour j');
    /// the flag swaps the roles of the two wanted candidates
    ForcedThroughRange(bool),
}

#[derive(Clone, Debug, serde::Serialize, serde::Deserialize)]
pub struct Spec {
    pub n: usize,
    pub shape: Shape,
    /// candidates (0-based version index) that the problem requires
    pub want: Vec<usize>,
}

/// Builds the universe of a spec. Package p has versions 1..=n (candidate i = version i+1),
/// dummy package d has one solvable, and revealing requirements are unions `d * | p{block}`
/// so that revelation does not force a selection.
pub fn build(spec: &Spec) -> Case {
    let mut u = Universe::default();
    let p = u.add_name("p");
    let d = u.add_name("d");
    let cands: Vec<Id> = (1..=spec.n).map(|v| u.add_solv(p, v as u32)).collect();
    let d1 = u.add_solv(d, 1);
    let d_all = u.add_vset(d, &[d1]);
    let mut prob = Problem::default();
    let mut reveal = |u: &mut Universe, block: &[usize]| -> Req {
        let members: Vec<Id> = block.iter().map(|&i| cands[i]).collect();
        let vs = u.add_vset(p, &members);
        Req::Union(u.add_union(&[d_all, vs]))
    };
    let all: Vec<usize> = (0..spec.n).collect();
    let mut late_reqs: Vec<Req> = vec![];
    let mut want_reqs: Vec<Req> = vec![];
    for &w in &spec.want {
        let vs = u.add_vset(p, &[cands[w]]);
        want_reqs.push(Req::Single(vs));
    }
    match &spec.shape {
        Shape::AllAtOnce => {
            let r = reveal(&mut u, &all);
            prob.reqs.push(r);
            prob.reqs.extend(want_reqs);
        }
        Shape::Singles(order) => {
            for &i in order {
                let r = reveal(&mut u, &[i as usize]);
                prob.reqs.push(r);
            }
            prob.reqs.extend(want_reqs);
        }
        Shape::Overlap(k) => {
            let k = (*k).clamp(1, spec.n);
            let r = reveal(&mut u, &all[..k]);
            prob.reqs.push(r);
            let r = reveal(&mut u, &all);
            prob.reqs.push(r);
            prob.reqs.extend(want_reqs);
        }
        Shape::Growing(doubling) => {
            let mut k = 1usize;
            while k < spec.n {
                let r = reveal(&mut u, &all[..k]);
                prob.reqs.push(r);
                k = if *doubling { k * 2 } else { k + 1 };
            }
            let r = reveal(&mut u, &all);
            prob.reqs.push(r);
            prob.reqs.extend(want_reqs);
        }
        Shape::Twice => {
            let r = reveal(&mut u, &all);
            prob.reqs.push(r);
            let r = reveal(&mut u, &all);
            prob.reqs.push(r);
            prob.reqs.extend(want_reqs);
        }
        Shape::WantFirst => {
            prob.reqs.extend(want_reqs);
            let r = reveal(&mut u, &all);
            prob.reqs.push(r);
        }
        Shape::ForcedThroughRange(flip) => {
            let n = spec.n;
            let mut plain = |u: &mut Universe, idxs: &[usize]| -> Req {
                let members: Vec<Id> = idxs.iter().map(|&i| cands[i]).collect();
                Req::Single(u.add_vset(p, &members))
            };
            match spec.want.len() {
                0 => {
                    let r = reveal(&mut u, &all);
                    prob.reqs.push(r);
                }
                1 => {
                    let i = spec.want[0];
                    let r = plain(&mut u, &[i]);
                    prob.reqs.push(r);
                    if n > 1 {
                        let r = plain(&mut u, &[i, (i + 1) % n]);
                        prob.reqs.push(r);
                    }
                }
                _ => {
                    let (i, j) = if *flip { (spec.want[1], spec.want[0]) } else { (spec.want[0], spec.want[1]) };
                    let r = plain(&mut u, &[i]);
                    prob.reqs.push(r);
                    let r = plain(&mut u, &[i, j]);
                    prob.reqs.push(r);
                    let mut forced = vec![j];
                    if let Some(j2) = (1..n).map(|d| (j + d) % n).find(|&c| c != i && c != j) {
                        forced.push(j2);
                    }
                    let r = plain(&mut u, &forced);
                    prob.reqs.push(r);
                }
            }
        }
        Shape::Blocks(sz) => {
            for b in all.chunks(*sz) {
                let r = reveal(&mut u, b);
                prob.reqs.push(r);
            }
            prob.reqs.extend(want_reqs);
        }
        Shape::TwoPhase(k) => {
            let k = (*k).min(spec.n);
            if k > 0 {
                let r = reveal(&mut u, &all[..k]);
                prob.reqs.push(r);
            }
            if k < spec.n {
                let r = reveal(&mut u, &all[k..]);
                late_reqs.push(r);
            }
            // e=1 (only candidate of e) carries the late revelation and the test requirements
            let e = u.add_name("e");
            let e1 = u.add_solv(e, 1);
            let e_all = u.add_vset(e, &[e1]);
            for r in late_reqs.drain(..) {
                u.solvs[e1 as usize].deps.push_req(r);
            }
            for r in want_reqs.drain(..) {
                u.solvs[e1 as usize].deps.push_req(r);
            }
            prob.reqs.push(Req::Single(e_all));
        }
        Shape::FalseWhenRevealed => {
            let s = u.add_name("s");
            let s1 = u.add_solv(s, 1);
            let s2 = u.add_solv(s, 2);
            let s_all = u.add_vset(s, &[s1, s2]);
            u.names[s as usize].hint = Hint::All;
            // s=2 constrains p to the candidates that are NOT wanted
            let others: Vec<Id> = all.iter().filter(|i| !spec.want.contains(i)).map(|&i| cands[i]).collect();
            let vs_others = u.add_vset(p, &others);
            u.solvs[s2 as usize].deps.push_con(vs_others);
            let r = u.add_name("r");
            let r1 = u.add_solv(r, 1);
            let r_all = u.add_vset(r, &[r1]);
            for rq in want_reqs.drain(..) {
                u.solvs[r1 as usize].deps.push_req(rq);
            }
            prob.reqs.push(Req::Single(s_all));
            prob.reqs.push(Req::Single(r_all));
        }
        Shape::RevertedDiscovery(k) => {
            let k = (*k).min(spec.n);
            if k > 0 {
                // a plain requirement: the best of the first k is selected before x is explored
                let members: Vec<Id> = all[..k].iter().map(|&i| cands[i]).collect();
                let vs = u.add_vset(p, &members);
                prob.reqs.push(Req::Single(vs));
            }
            let x = u.add_name("x");
            let x1 = u.add_solv(x, 1);
            let x2 = u.add_solv(x, 2);
            let x_all = u.add_vset(x, &[x1, x2]);
            if k < spec.n {
                let r = reveal(&mut u, &all[k..]);
                u.solvs[x2 as usize].deps.push_req(r);
            }
            // x=2 can never be installed: it needs a package without candidates
            let m = u.add_missing_name("m");
            let m_vs = u.add_vset(m, &[]);
            u.solvs[x2 as usize].deps.push_req(Req::Single(m_vs));
            for r in want_reqs.drain(..) {
                u.solvs[x1 as usize].deps.push_req(r);
            }
            prob.reqs.push(Req::Single(x_all));
        }
    }
    Case {
        u,
        p: prob,
        tag: format!("{spec:?}"),
    }
}

fn shapes_for(n: usize, quick: bool) -> Vec<Shape> {
    let mut v = vec![Shape::AllAtOnce];
    if n <= 5 {
        // every arrival permutation
        let mut perm: Vec<u32> = (0..n as u32).collect();
        let mut all = vec![];
        permute(&mut perm, 0, &mut all);
        v.extend(all.into_iter().map(Shape::Singles));
    } else {
        let id: Vec<u32> = (0..n as u32).collect();
        let mut rev = id.clone();
        rev.reverse();
        let half = n / 2;
        let inter: Vec<u32> = (0..n).map(|i| if i % 2 == 0 { (i / 2) as u32 } else { (half + i / 2).min(n - 1) as u32 }).collect();
        // interleaving may repeat an index for odd n: dedupe and complete
        let mut inter2: Vec<u32> = vec![];
        for x in inter.into_iter().chain(id.iter().copied()) {
            if !inter2.contains(&x) {
                inter2.push(x);
            }
        }
        v.push(Shape::Singles(id.clone()));
        v.push(Shape::Singles(rev));
        v.push(Shape::Singles(inter2));
        let rots: Vec<usize> = if quick { vec![1, n / 2] } else { vec![1, 2, 3, n / 2, n - 1] };
        for r in rots {
            let mut x = id.clone();
            x.rotate_left(r % n);
            v.push(Shape::Singles(x));
        }
    }
    for sz in [2usize, 3, 4] {
        if sz < n {
            v.push(Shape::Blocks(sz));
        }
    }
    v.push(Shape::FalseWhenRevealed);
    v.push(Shape::Twice);
    v.push(Shape::WantFirst);
    v.push(Shape::ForcedThroughRange(false));
    v.push(Shape::ForcedThroughRange(true));
    v.push(Shape::Growing(true));
    if n <= 9 || !quick {
        v.push(Shape::Growing(false));
    }
    for k in [1usize, 2, 3, 4, 5, 8, 9, 16, 17] {
        if k < n {
            v.push(Shape::Overlap(k));
        }
    }
    // split points: all of them up to n = 9 (quick) / 40 (thorough); above that the ones around the powers of two
    let mut ks: Vec<usize> = if n <= 9 || (!quick && n <= 40) {
        (0..=n).collect()
    } else if quick {
        vec![0, 1, 2, 3, 4, 5, 7, 8, 9, n - 1, n]
    } else {
        vec![0, 1, 2, 3, 4, 5, 7, 8, 9, 15, 16, 17, 31, 32, 33, 63, 64, 65, 127, 128, 129, n / 2, n - 1, n]
    };
    ks.retain(|&k| k <= n);
    ks.sort();
    ks.dedup();
    for k in ks {
        v.push(Shape::TwoPhase(k));
        if k >= 1 && k < n {
            v.push(Shape::RevertedDiscovery(k));
        }
    }
    v
}

fn permute(p: &mut Vec<u32>, k: usize, out: &mut Vec<Vec<u32>>) {
    if k == p.len() {
        out.push(p.clone());
        return;
    }
    for i in k..p.len() {
        p.swap(k, i);
        permute(p, k + 1, out);
        p.swap(k, i);
    }
}

struct Specs(Vec<(usize, Shape)>);
impl Family for Specs {
    fn name(&self) -> String {
        "F6 at-most-one family".into()
    }
    fn len(&self) -> u64 {
        self.0.len() as u64
    }
    fn get(&self, idx: u64) -> Case {
        // the sweep body rebuilds per want-set; this carries (n, shape) only
        let (n, shape) = &self.0[idx as usize];
        build(&Spec { n: *n, shape: shape.clone(), want: vec![] })
    }
}

pub fn check_spec(spec: &Spec, order: (usize, u64, u32), acc: &mut Acc) {
    let case = build(spec);
    let mut cfg = RunCfg::default();
    cfg.dump = true;
    let mut session = Session::new(&case.u, &cfg);
    let res = session.solve(&case.p, CancelPlan::Never, vec![]);
    acc.evaluations += 1;
    // the same problem once more on the same solver: the at-most-one encoding is per-solve state and
    // must be rebuilt completely (candidates and helper variables known from the first call included)
    let res2 = session.solve(&case.p, CancelPlan::Never, vec![]);
    acc.evaluations += 1;
    let mk = |sig: &str, what: String| Violation {
        property: "C15".into(),
        signature: sig.to_string(),
        what,
        replay: json!({"kind": "c15", "spec": spec, "observed": format!("{} / second solve {}", res.outcome.short(), res2.outcome.short())}),
        order,
    };
    let p_name: Id = 0;
    // a single wanted candidate can be unsatisfiable by construction (RevertedDiscovery with i >= k)
    let single_sat = spec.want.len() != 1 || Sem::new(&case.u, &case.p).sat();
    // (a reused solver may reach another valid solution: both calls are judged by the same rule, not compared)
    for (res, tag) in [(&res, ""), (&res2, ":second-solve")] {
    let mk = |sig: &str, what: String| mk(&format!("{sig}{tag}"), format!("{what}{}", if tag.is_empty() { "" } else { " [same problem solved a second time on the same solver]" }));
    match (spec.want.len(), &res.outcome) {
        (_, Outcome::Panic(_)) => acc.count("panics_left_to_C04"),
        (1, Outcome::Unsat) if !single_sat => acc.count("singles_unsat_by_construction"),
        (1, o) if !single_sat => acc.violation(mk(
            "single-accepted-but-unsat",
            format!("n={}: problem is unsatisfiable by construction, got {} (shape {:?})", spec.n, o.short(), spec.shape),
        )),
        (2, Outcome::Unsat) => acc.count("pairs_rejected"),
        (2, o) => acc.violation(mk(
            "pair-accepted",
            format!(
                "n={}: requiring candidates {} and {} of one package must be Unsolvable, got {} (shape {:?})",
                spec.n,
                spec.want[0] + 1,
                spec.want[1] + 1,
                o.short(),
                spec.shape
            ),
        )),
        (1, Outcome::Ok(sol)) => {
            let ps: Vec<Id> = sol.iter().copied().filter(|&s| case.u.solvs[s as usize].name == p_name).collect();
            if ps.len() != 1 || case.u.solvs[ps[0] as usize].version as usize != spec.want[0] + 1 {
                acc.violation(mk(
                    "single-wrong",
                    format!("n={}: requiring only candidate {} must select exactly it, got p versions {:?}", spec.n, spec.want[0] + 1, ps.iter().map(|&s| case.u.solvs[s as usize].version).collect::<Vec<_>>()),
                ));
            } else {
                acc.count("singles_selected");
            }
        }
        (1, o) => acc.violation(mk(
            "single-rejected",
            format!("n={}: requiring only candidate {} must be solvable, got {} (shape {:?})", spec.n, spec.want[0] + 1, o.short(), spec.shape),
        )),
        _ => {}
    }
    }
    for d in [&res.dump, &res2.dump].into_iter().flatten() {
        let sem = Sem::new(&case.u, &case.p);
        let mut tmp = Acc::default();
        if let Err((sig, what)) = check_clauses(&sem, d, &mut tmp) {
            if sig.starts_with("forbid") {
                acc.violation(mk(&sig, format!("n={} shape {:?}: {what}", spec.n, spec.shape)));
            }
        } else {
            acc.count("at_most_one_encodings_certified");
        }
        let helpers = d
            .clauses
            .iter()
            .flat_map(|c| c.literals.iter())
            .filter_map(|l| match l.0 {
                resolvo::VerifVar::Helper(n, h) if n.0 == p_name => Some(h),
                _ => None,
            })
            .collect::<std::collections::BTreeSet<_>>()
            .len();
        acc.max("max:helper_variables", helpers as u64);
    }
}

pub fn run(ctx: &Ctx) -> i32 {
    let q = ctx.tier == Tier::Quick;
    let n_max = if q { 17 } else { 130 };
    let mut rep = Report::new(
        "model_checking",
        "package p with n candidates for every n in 1..=N; every discovery shape of the listed menu (all-at-once, singleton requirements in every arrival permutation for n<=5 and identity/reverse/interleaved/rotations above, blocks of 2/3/4, two-phase at every split, discovery under decisions that are later reverted); every pair i<j must be Unsolvable and every single i solvable to exactly i; the dumped forbid clauses are checked to be exactly an at-most-one; non-trivial = distinct (n, shape, pair) with n >= 3 (at least two helper bits)",
    );
    rep.assumptions.push("expected verdicts are explicit (no oracle)".into());
    let mut specs = vec![];
    for n in 1..=n_max {
        for s in shapes_for(n, q) {
            specs.push((n, s));
        }
    }
    let fam = Specs(specs);
    let opts = SweepOpts {
        threads: threads(),
        wall_limit_s: 60,
        on_stuck: Box::new(|_, idx| { eprintln!("MACHINERY ERROR: C15 execution stuck at spec {idx}"); None }),
        fam_no: 0,
        stride: 1,
        offset: 0,
    };
    let specs_ref = &fam.0;
    let acc = sweep(&fam, &opts, &|idx, _case, acc| {
        let (n, shape) = &specs_ref[idx as usize];
        let n = *n;
        acc.count("shapes");
        // pairs: all for n <= 40, otherwise every pair that involves a power-of-two neighbour or the ends
        let interesting = |i: usize| -> bool {
            n <= 40 || i < 3 || i + 3 >= n || (i + 2).is_power_of_two() || (i + 1).is_power_of_two() || i.is_power_of_two()
        };
        let mut sub = 0u32;
        for i in 0..n {
            check_spec(&Spec { n, shape: shape.clone(), want: vec![i] }, (0, idx, sub), acc);
            sub += 1;
            for j in i + 1..n {
                if !(interesting(i) || interesting(j)) {
                    acc.count("pairs_not_enumerated_above_n40");
                    continue;
                }
                let spec = Spec { n, shape: shape.clone(), want: vec![i, j] };
                check_spec(&spec, (0, idx, sub), acc);
                sub += 1;
                if n >= 3 {
                    let mut h = std::collections::hash_map::DefaultHasher::new();
                    use std::hash::{Hash, Hasher};
                    format!("{spec:?}").hash(&mut h);
                    acc.mark_nontrivial(h.finish());
                }
            }
        }
        acc.sample(|| json!({"n": n, "shape": format!("{shape:?}")}));
    });
    eprintln!("[C15] {} shapes, {} solves, {:.1}s", acc.get("shapes"), acc.evaluations, ctx.t0.elapsed().as_secs_f64());
    let states = acc.get("shapes");
    let transitions = acc.evaluations;
    let complete = acc.get("pairs_not_enumerated_above_n40") == 0;
    rep.push("F6", acc, complete, states);
    rep.extra.insert("states".into(), json!(states));
    rep.extra.insert("transitions".into(), json!(transitions));
    rep.extra.insert("traces_validated_against_impl".into(), json!(transitions));
    rep.extra.insert("n_max".into(), json!(n_max));
    let a = rep.counter("pairs_rejected");
    let b = rep.counter("singles_selected");
    let c = rep.counter("max:helper_variables");
    rep.require(a > 1000 && b > 100 && c >= 4, "pairs/singles not exercised or too few helper variables");
    rep.finish(ctx)
}

pub fn replay(v: &serde_json::Value) -> Vec<String> {
    let spec: Spec = serde_json::from_value(v["spec"].clone()).expect("spec");
    let mut acc = Acc::default();
    check_spec(&spec, (0, 0, 0), &mut acc);
    acc.violations.iter().map(|v| v.signature.clone()).collect()
}
