//! Reference semantics, written from the property statements and the trait
//! documentation only. Never calls resolvo. Everything is brute force over
//! small finite sets.

use std::collections::BTreeSet;

use crate::universe::*;

#[derive(Clone, Debug, PartialEq, Eq, Hash, serde::Serialize)]
pub enum Rule {
    RootReq(usize),
    RootCons(usize),
    Req(Id, usize),
    Cons(Id, usize),
    Excluded(Id),
    UnknownDeps(Id),
    LockedOut(Id),
    OnePerName(Id),
    NotACandidate(Id),
    Duplicate(Id),
}

impl Rule {
    /// coarse kind, used for known-finding signatures
    pub fn kind(&self) -> &'static str {
        match self {
            Rule::RootReq(_) => "root-requirement",
            Rule::RootCons(_) => "root-constraint",
            Rule::Req(..) => "requirement",
            Rule::Cons(..) => "constrains",
            Rule::Excluded(_) => "excluded",
            Rule::UnknownDeps(_) => "unknown-deps",
            Rule::LockedOut(_) => "locked-out",
            Rule::OnePerName(_) => "one-per-name",
            Rule::NotACandidate(_) => "not-a-candidate",
            Rule::Duplicate(_) => "duplicate",
        }
    }
}

pub struct Sem<'a> {
    pub u: &'a Universe,
    pub p: &'a Problem,
    vs_match: Vec<Vec<Id>>,
    vs_non: Vec<Vec<Id>>,
}

pub type Sel = Vec<bool>;

impl<'a> Sem<'a> {
    pub fn new(u: &'a Universe, p: &'a Problem) -> Self {
        let mut vs_match = Vec::with_capacity(u.vsets.len());
        let mut vs_non = Vec::with_capacity(u.vsets.len());
        for vs in &u.vsets {
            let n = &u.names[vs.name as usize];
            let cands: &[Id] = if n.missing { &[] } else { &n.cands };
            vs_match.push(
                cands
                    .iter()
                    .copied()
                    .filter(|c| vs.members.contains(c))
                    .collect(),
            );
            vs_non.push(
                cands
                    .iter()
                    .copied()
                    .filter(|c| !vs.members.contains(c))
                    .collect(),
            );
        }
        Sem {
            u,
            p,
            vs_match,
            vs_non,
        }
    }
    pub fn cands(&self, name: Id) -> &[Id] {
        let n = &self.u.names[name as usize];
        if n.missing {
            &[]
        } else {
            &n.cands
        }
    }
    pub fn matching(&self, vs: Id) -> &[Id] {
        &self.vs_match[vs as usize]
    }
    pub fn non_matching(&self, vs: Id) -> &[Id] {
        &self.vs_non[vs as usize]
    }
    /// all candidates of a requirement (any member), listing order, no duplicates
    pub fn req_cands(&self, r: Req) -> Vec<Id> {
        let mut out = vec![];
        for v in self.u.req_vsets(r) {
            for &c in self.matching(v) {
                if !out.contains(&c) {
                    out.push(c);
                }
            }
        }
        out
    }
    /// matching candidates in the order the solver must try them:
    /// provider sort order, favored candidate rotated to the front
    pub fn sorted(&self, vs: Id) -> Vec<Id> {
        let mut m = self.matching(vs).to_vec();
        m.sort_by_key(|&s| self.u.solvs[s as usize].rank);
        let name = self.u.vsets[vs as usize].name;
        if let Some(f) = self.u.names[name as usize].favored {
            if let Some(pos) = m.iter().position(|&s| s == f) {
                let x = m.remove(pos);
                m.insert(0, x);
            }
        }
        m
    }
    pub fn req_sorted(&self, r: Req) -> Vec<Id> {
        let mut out = vec![];
        for v in self.u.req_vsets(r) {
            out.extend(self.sorted(v));
        }
        out
    }
    pub fn first(&self, r: Req) -> Option<Id> {
        self.req_sorted(r).first().copied()
    }
    pub fn is_excluded(&self, s: Id) -> bool {
        let n = &self.u.names[self.u.solvs[s as usize].name as usize];
        n.excluded.iter().any(|e| e.0 == s)
    }
    pub fn is_locked_out(&self, s: Id) -> bool {
        let n = &self.u.names[self.u.solvs[s as usize].name as usize];
        matches!(n.locked, Some(l) if l != s)
    }
    pub fn is_listed(&self, s: Id) -> bool {
        self.cands(self.u.solvs[s as usize].name).contains(&s)
    }

    pub fn sel_of(&self, t: &[Id]) -> Sel {
        let mut sel = vec![false; self.u.solvs.len()];
        for &s in t {
            sel[s as usize] = true;
        }
        sel
    }

    fn req_met(&self, r: Req, sel: &Sel) -> bool {
        match r {
            Req::Single(v) => self.matching(v).iter().any(|&c| sel[c as usize]),
            Req::Union(un) => self.u.unions[un as usize]
                .iter()
                .any(|&v| self.matching(v).iter().any(|&c| sel[c as usize])),
        }
    }
    fn con_ok(&self, v: Id, sel: &Sel) -> bool {
        !self.non_matching(v).iter().any(|&c| sel[c as usize])
    }

    /// The rules of C01 on a selection. `exempt`: solvables named directly as
    /// soft requirements (exempt from their own package's lock/exclusion list).
    pub fn check_valid(&self, sel: &Sel, exempt: &[Id]) -> Result<(), Rule> {
        for (i, &r) in self.p.reqs.iter().enumerate() {
            if !self.req_met(r, sel) {
                return Err(Rule::RootReq(i));
            }
        }
        for (i, &c) in self.p.cons.iter().enumerate() {
            if !self.con_ok(c, sel) {
                return Err(Rule::RootCons(i));
            }
        }
        let mut per_name = vec![0u8; self.u.names.len()];
        for (s, &on) in sel.iter().enumerate() {
            if !on {
                continue;
            }
            let s = s as Id;
            let sv = &self.u.solvs[s as usize];
            per_name[sv.name as usize] += 1;
            if per_name[sv.name as usize] > 1 {
                return Err(Rule::OnePerName(sv.name));
            }
            let ex = exempt.contains(&s);
            if !ex {
                if !self.is_listed(s) {
                    return Err(Rule::NotACandidate(s));
                }
                if self.is_excluded(s) {
                    return Err(Rule::Excluded(s));
                }
                if self.is_locked_out(s) {
                    return Err(Rule::LockedOut(s));
                }
            }
            match &sv.deps {
                Deps::Unknown(_) => return Err(Rule::UnknownDeps(s)),
                Deps::Known { reqs, cons } => {
                    for (i, &r) in reqs.iter().enumerate() {
                        if !self.req_met(r, sel) {
                            return Err(Rule::Req(s, i));
                        }
                    }
                    for (i, &c) in cons.iter().enumerate() {
                        if !self.con_ok(c, sel) {
                            return Err(Rule::Cons(s, i));
                        }
                    }
                }
            }
        }
        Ok(())
    }

    /// Enumerates every selection with at most one listed candidate per
    /// package (all others are invalid by the one-per-name rule) and calls `f`
    /// on each valid one; stops when `f` returns true. Returns whether stopped.
    pub fn for_each_model(&self, must: &[Id], mut f: impl FnMut(&Sel) -> bool) -> bool {
        let names: Vec<Id> = (0..self.u.names.len() as Id)
            .filter(|&n| !self.cands(n).is_empty())
            .collect();
        let mut sel = vec![false; self.u.solvs.len()];
        // solvables in `must` that can never be chosen by the enumeration make it empty
        for &m in must {
            if !self.is_listed(m) {
                return false;
            }
        }
        self.rec(&names, 0, &mut sel, must, &mut f)
    }
    fn rec(
        &self,
        names: &[Id],
        i: usize,
        sel: &mut Sel,
        must: &[Id],
        f: &mut impl FnMut(&Sel) -> bool,
    ) -> bool {
        if i == names.len() {
            if self.check_valid(sel, &[]).is_ok() {
                return f(sel);
            }
            return false;
        }
        let n = names[i];
        let forced: Option<Id> = must
            .iter()
            .copied()
            .find(|&m| self.u.solvs[m as usize].name == n);
        if forced.is_none() && self.rec(names, i + 1, sel, must, f) {
            return true;
        }
        for &c in self.cands(n) {
            if let Some(fc) = forced {
                if fc != c {
                    continue;
                }
            }
            if self.is_excluded(c)
                || self.is_locked_out(c)
                || matches!(self.u.solvs[c as usize].deps, Deps::Unknown(_))
            {
                continue;
            }
            sel[c as usize] = true;
            let stop = self.rec(names, i + 1, sel, must, f);
            sel[c as usize] = false;
            if stop {
                return true;
            }
        }
        false
    }
    pub fn sat(&self) -> bool {
        self.for_each_model(&[], |_| true)
    }
    pub fn sat_with(&self, must: &[Id]) -> bool {
        // two `must` of one package can never be satisfied
        for (i, &a) in must.iter().enumerate() {
            for &b in &must[i + 1..] {
                if a != b && self.u.solvs[a as usize].name == self.u.solvs[b as usize].name {
                    return false;
                }
            }
        }
        self.for_each_model(must, |_| true)
    }
    /// Is there a selection containing all of `must` that is valid when the solvables in `exempt`
    /// (directly named soft requirements) enjoy the documented exemption from their own package's lock
    /// and exclusion list? Brute force over all selections with at most one solvable per package, where
    /// an exempt solvable may be chosen although it is excluded / locked out / unlisted.
    pub fn sat_with_exempt(&self, must: &[Id], exempt: &[Id]) -> bool {
        for (i, &a) in must.iter().enumerate() {
            for &b in &must[i + 1..] {
                if a != b && self.u.solvs[a as usize].name == self.u.solvs[b as usize].name {
                    return false;
                }
            }
        }
        // per package: the listed candidates plus the exempt solvables of that package
        let mut options: Vec<Vec<Id>> = vec![];
        for n in 0..self.u.names.len() as Id {
            let mut o: Vec<Id> = self.cands(n).to_vec();
            for &e in exempt {
                if self.u.solvs[e as usize].name == n && !o.contains(&e) {
                    o.push(e);
                }
            }
            if let Some(&m) = must.iter().find(|&&m| self.u.solvs[m as usize].name == n) {
                if !o.contains(&m) {
                    return false;
                }
                o = vec![m];
                options.push(o);
            } else if !o.is_empty() {
                o.insert(0, u32::MAX); // "none of this package"
                options.push(o);
            }
        }
        let mut sel = vec![false; self.u.solvs.len()];
        fn go(sem: &Sem, options: &[Vec<Id>], i: usize, sel: &mut Sel, exempt: &[Id]) -> bool {
            if i == options.len() {
                return sem.check_valid(sel, exempt).is_ok();
            }
            for &c in &options[i] {
                if c == u32::MAX {
                    if go(sem, options, i + 1, sel, exempt) {
                        return true;
                    }
                    continue;
                }
                sel[c as usize] = true;
                let ok = go(sem, options, i + 1, sel, exempt);
                sel[c as usize] = false;
                if ok {
                    return true;
                }
            }
            false
        }
        go(self, &options, 0, &mut sel, exempt)
    }
    pub fn count_models(&self) -> u64 {
        let mut n = 0;
        self.for_each_model(&[], |_| {
            n += 1;
            false
        });
        n
    }

    /// First-choice closure (C07): choose for every requirement its
    /// first-ranked candidate, transitively from the root requirements (and
    /// `extra_roots`). None if some requirement has no candidate at all.
    pub fn closure(&self, extra_roots: &[Id]) -> Option<BTreeSet<Id>> {
        let mut s: BTreeSet<Id> = BTreeSet::new();
        let mut queue: Vec<Req> = self.p.reqs.clone();
        for &x in extra_roots {
            if s.insert(x) {
                queue.extend_from_slice(self.u.solvs[x as usize].deps.reqs());
            }
        }
        while let Some(r) = queue.pop() {
            let f = self.first(r)?;
            if s.insert(f) {
                queue.extend_from_slice(self.u.solvs[f as usize].deps.reqs());
            }
        }
        Some(s)
    }
    fn all_reqs_of(&self, s: &BTreeSet<Id>) -> Vec<Req> {
        let mut v = self.p.reqs.clone();
        for &x in s {
            v.extend_from_slice(self.u.solvs[x as usize].deps.reqs());
        }
        v
    }
    /// The premise of C07, evaluated literally: the closure is a valid
    /// selection and every requirement of root and of its members is met only
    /// by its own first choice.
    pub fn conflict_free(&self, extra_roots: &[Id]) -> Option<BTreeSet<Id>> {
        let s = self.closure(extra_roots)?;
        let sel = self.sel_of(&s.iter().copied().collect::<Vec<_>>());
        if self.check_valid(&sel, extra_roots).is_err() {
            return None;
        }
        for r in self.all_reqs_of(&s) {
            let f = self.first(r)?;
            for c in self.req_cands(r) {
                if sel[c as usize] && c != f {
                    return None;
                }
            }
        }
        Some(s)
    }

    /// Least set reachable from the root requirements (and `extra_roots`, the
    /// accepted soft solvables) along requirement edges whose candidate is in `sel`.
    pub fn support(&self, sel: &Sel, extra_roots: &[Id]) -> BTreeSet<Id> {
        let mut s: BTreeSet<Id> = BTreeSet::new();
        let mut queue: Vec<Req> = self.p.reqs.clone();
        for &x in extra_roots {
            if sel[x as usize] && s.insert(x) {
                queue.extend_from_slice(self.u.solvs[x as usize].deps.reqs());
            }
        }
        while let Some(r) = queue.pop() {
            for c in self.req_cands(r) {
                if sel[c as usize] && s.insert(c) {
                    queue.extend_from_slice(self.u.solvs[c as usize].deps.reqs());
                }
            }
        }
        s
    }

    /// Names mentioned (by any version set of a requirement or constrains) by these deps.
    pub fn mentioned_names(&self, reqs: &[Req], cons: &[Id]) -> BTreeSet<Id> {
        let mut out = BTreeSet::new();
        for &r in reqs {
            for v in self.u.req_vsets(r) {
                out.insert(self.u.vsets[v as usize].name);
            }
        }
        for &c in cons {
            out.insert(self.u.vsets[c as usize].name);
        }
        out
    }
}

/// Hand-solved universes: a wrong oracle must show up as a failure here.
pub fn self_check() -> Result<(), String> {
    use crate::families::mini;
    // a=2 requires b{1}; b=2,b=1; root requires a
    {
        let (u, p, ids) = mini(&[("a", 2, &["b 1"]), ("a", 1, &[]), ("b", 2, &[]), ("b", 1, &[])], &["a *"], &[]);
        let sem = Sem::new(&u, &p);
        let mut models: Vec<Vec<Id>> = vec![];
        sem.for_each_model(&[], |sel| {
            models.push(sel.iter().enumerate().filter(|x| *x.1).map(|x| x.0 as Id).collect());
            false
        });
        models.sort();
        let (a2, a1, b2, b1) = (ids["a=2"], ids["a=1"], ids["b=2"], ids["b=1"]);
        let mut expect = vec![vec![a1], vec![a1, b2], vec![a1, b1], vec![a2, b1]];
        for e in expect.iter_mut() {
            e.sort();
        }
        expect.sort();
        if models != expect {
            return Err(format!("oracle self-check 1: {models:?} != {expect:?}"));
        }
        let cf = sem.conflict_free(&[]).ok_or("self-check 1: premise should hold")?;
        if cf != [a2, b1].into_iter().collect() {
            return Err("self-check 1: closure".into());
        }
        let sel = sem.sel_of(&[a1, b2]);
        if sem.support(&sel, &[]) != [a1].into_iter().collect() {
            return Err("self-check 1: support".into());
        }
    }
    // conflict: a requires c{1}, b requires c{2}; root a,b => UNSAT
    {
        let (u, p, _) = mini(
            &[("a", 1, &["c 1"]), ("b", 1, &["c 2"]), ("c", 1, &[]), ("c", 2, &[])],
            &["a *", "b *"],
            &[],
        );
        let sem = Sem::new(&u, &p);
        if sem.sat() {
            return Err("self-check 2: should be UNSAT".into());
        }
        if sem.conflict_free(&[]).is_some() {
            return Err("self-check 2: premise must fail".into());
        }
    }
    // constrains: a=1 constrains b{1}; root requires a and b: only b=1 works
    {
        let (u, p, ids) = mini(
            &[("a", 1, &["!b 1"]), ("b", 1, &[]), ("b", 2, &[])],
            &["a *", "b *"],
            &[],
        );
        let sem = Sem::new(&u, &p);
        if sem.count_models() != 1 || !sem.sat_with(&[ids["b=1"]]) || sem.sat_with(&[ids["b=2"]]) {
            return Err("self-check 3".into());
        }
        // the first choice b=2 conflicts with a's constrains: premise must fail
        if sem.conflict_free(&[]).is_some() {
            return Err("self-check 3: premise".into());
        }
    }
    // root constraint + missing package
    {
        let (u, p, _) = mini(&[("a", 1, &[]), ("a", 2, &[])], &["a *"], &["a 1"]);
        let sem = Sem::new(&u, &p);
        if sem.count_models() != 1 {
            return Err("self-check 4".into());
        }
    }
    Ok(())
}
