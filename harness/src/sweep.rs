//! Parallel exhaustive sweep over an indexable family + accumulation of
//! counters, samples and violations in deterministic (index) order.

use std::{
    collections::{BTreeMap, HashSet},
    hash::{Hash, Hasher},
    sync::{
        atomic::{AtomicBool, AtomicU64, Ordering},
        Mutex,
    },
    time::Instant,
};

use serde_json::Value;

use crate::families::Family;
use crate::universe::Case;

#[derive(Clone, Debug)]
pub struct Violation {
    pub property: String,
    /// stable identification of *what* fails (known-findings key)
    pub signature: String,
    pub what: String,
    pub replay: Value,
    pub order: (usize, u64, u32),
}

#[derive(Default)]
pub struct Acc {
    pub evaluations: u64,
    pub counters: BTreeMap<String, u64>,
    pub violations: Vec<Violation>,
    pub samples: Vec<Value>,
    pub nontrivial: HashSet<u64>,
    pub distinct: HashSet<u64>,
    pub track_distinct: bool,
}

pub const MAX_VIOL_PER_SIG: usize = 3;
pub const MAX_SAMPLES: usize = 6;

impl Acc {
    pub fn count(&mut self, k: &str) {
        *self.counters.entry(k.to_string()).or_insert(0) += 1;
    }
    pub fn add(&mut self, k: &str, n: u64) {
        let e = self.counters.entry(k.to_string()).or_insert(0);
        *e = e.wrapping_add(n);
    }
    pub fn max(&mut self, k: &str, n: u64) {
        let e = self.counters.entry(k.to_string()).or_insert(0);
        if n > *e {
            *e = n;
        }
    }
    pub fn get(&self, k: &str) -> u64 {
        self.counters.get(k).copied().unwrap_or(0)
    }
    pub fn violation(&mut self, v: Violation) {
        let n = self
            .violations
            .iter()
            .filter(|x| x.signature == v.signature && x.property == v.property)
            .count();
        self.count(&format!("violations[{}]", v.signature));
        if n < MAX_VIOL_PER_SIG {
            self.violations.push(v);
        }
    }
    pub fn sample(&mut self, f: impl FnOnce() -> Value) {
        if self.samples.len() < MAX_SAMPLES {
            self.samples.push(f());
        }
    }
    pub fn mark_nontrivial(&mut self, h: u64) {
        self.nontrivial.insert(h);
    }
    pub fn merge(&mut self, o: Acc) {
        self.evaluations += o.evaluations;
        for (k, v) in o.counters {
            if k.starts_with("max:") {
                let e = self.counters.entry(k).or_insert(0);
                *e = (*e).max(v);
            } else {
                let e = self.counters.entry(k).or_insert(0);
                *e = e.wrapping_add(v);
            }
        }
        self.violations.extend(o.violations);
        for s in o.samples {
            if self.samples.len() < MAX_SAMPLES {
                self.samples.push(s);
            }
        }
        self.nontrivial.extend(o.nontrivial);
        self.distinct.extend(o.distinct);
    }
    pub fn finalize(&mut self) {
        self.violations.sort_by(|a, b| a.order.cmp(&b.order));
        let mut kept: Vec<Violation> = vec![];
        for v in std::mem::take(&mut self.violations) {
            if kept
                .iter()
                .filter(|x| x.signature == v.signature && x.property == v.property)
                .count()
                < MAX_VIOL_PER_SIG
            {
                kept.push(v);
            }
        }
        self.violations = kept;
    }
}

pub fn case_hash(c: &Case) -> u64 {
    #[allow(deprecated)]
    let mut h = std::hash::SipHasher::new_with_keys(0x5eed, 0xc0ffee);
    c.u.hash(&mut h);
    c.p.hash(&mut h);
    h.finish()
}

pub struct SweepOpts {
    pub threads: usize,
    /// per-execution wall limit in seconds
    pub wall_limit_s: u64,
    /// called by the monitor when an execution exceeds the wall limit: (family index in the
    /// plan, case index). May return a violation to record. The stuck worker thread is
    /// abandoned (it keeps spinning, parked for good if it ever returns) and replaced.
    pub on_stuck: Box<dyn Fn(usize, u64) -> Option<Violation> + Sync + Send>,
    pub fam_no: usize,
    /// explore only every `stride`-th index starting at `offset` (1/0 = everything)
    pub stride: u64,
    pub offset: u64,
}

/// Runs `f` on a fresh thread and waits up to `secs` seconds of wall-clock time for it.
/// Used before non-termination is reported: on an overloaded machine a healthy execution can be
/// starved for longer than the monitor's limit, a looping one never comes back.
pub fn finishes_within(secs: u64, f: impl FnOnce() + Send + 'static) -> bool {
    let (tx, rx) = std::sync::mpsc::channel();
    let spawned = std::thread::Builder::new().stack_size(64 << 20).spawn(move || {
        let _ = std::panic::catch_unwind(std::panic::AssertUnwindSafe(f));
        let _ = tx.send(());
    });
    if spawned.is_err() {
        return true;
    }
    rx.recv_timeout(std::time::Duration::from_secs(secs)).is_ok()
}

/// exit code used when too many executions are stuck and the run is aborted
pub static STUCK_EXIT: AtomicU64 = AtomicU64::new(2);
/// executions completed so far in this process (for the evidence written when aborting)
pub static PROCESSED: AtomicU64 = AtomicU64::new(0);
/// how many hung executions a single sweep tolerates (each one costs a spinning thread)
pub const MAX_STUCK: usize = 6;
/// set once the process has given up enumerating because too many executions hang
pub static GAVE_UP: AtomicBool = AtomicBool::new(false);
/// executions stopped through the kill switch so far in this process
pub static KILLED: AtomicU64 = AtomicU64::new(0);
pub const MAX_KILLED: usize = 24;
/// hung executions abandoned so far in this process
pub static ABANDONED: AtomicU64 = AtomicU64::new(0);
/// executions that hit the wall limit but completed when they were run again (not counted as hung)
pub static NOT_REPRODUCED: AtomicU64 = AtomicU64::new(0);

// ---------------------------------------------------------------------------
// Crash breadcrumbs. The code under test runs inside this process; if it brings the process down
// (abort after a panic inside a destructor during unwinding, a segmentation fault in unsafe code, a
// stack overflow) no verdict could be written. Every worker therefore publishes which (family, index)
// it is executing, and a signal handler prints those breadcrumbs before the process dies; the driver
// script then re-runs each candidate alone in a child process to find the case that crashes.
// ---------------------------------------------------------------------------
const N_CRUMBS: usize = 256;
#[allow(clippy::declare_interior_mutable_const)]
const CRUMB_INIT: AtomicU64 = AtomicU64::new(u64::MAX);
static CRUMB_IDX: [AtomicU64; N_CRUMBS] = [CRUMB_INIT; N_CRUMBS];
static CRUMB_FAM: [AtomicU64; N_CRUMBS] = [CRUMB_INIT; N_CRUMBS];
static NEXT_CRUMB: AtomicU64 = AtomicU64::new(0);

fn write_num(buf: &mut [u8], pos: &mut usize, mut v: u64) {
    let mut tmp = [0u8; 20];
    let mut n = 0;
    if v == 0 {
        tmp[0] = b'0';
        n = 1;
    }
    while v > 0 {
        tmp[n] = b'0' + (v % 10) as u8;
        v /= 10;
        n += 1;
    }
    while n > 0 {
        n -= 1;
        buf[*pos] = tmp[n];
        *pos += 1;
    }
}

extern "C" fn on_crash(sig: libc::c_int) {
    // only async-signal-safe operations: atomics and write(2)
    for i in 0..N_CRUMBS {
        let idx = CRUMB_IDX[i].load(Ordering::Relaxed);
        if idx == u64::MAX {
            continue;
        }
        let fam = CRUMB_FAM[i].load(Ordering::Relaxed);
        let mut buf = [0u8; 96];
        let mut pos = 0;
        for b in b"CRASH-CRUMB sig=" {
            buf[pos] = *b;
            pos += 1;
        }
        write_num(&mut buf, &mut pos, sig as u64);
        for b in b" fam=" {
            buf[pos] = *b;
            pos += 1;
        }
        write_num(&mut buf, &mut pos, fam);
        for b in b" idx=" {
            buf[pos] = *b;
            pos += 1;
        }
        write_num(&mut buf, &mut pos, idx);
        buf[pos] = b'\n';
        pos += 1;
        unsafe {
            libc::write(2, buf.as_ptr() as *const libc::c_void, pos);
        }
    }
    unsafe {
        libc::signal(sig, libc::SIG_DFL);
        libc::raise(sig);
    }
}

/// Installs the breadcrumb printer for the signals that end a process after a crash.
pub fn install_crash_handler() {
    unsafe {
        for sig in [libc::SIGABRT, libc::SIGSEGV, libc::SIGBUS, libc::SIGILL, libc::SIGFPE] {
            let mut sa: libc::sigaction = std::mem::zeroed();
            sa.sa_sigaction = on_crash as usize;
            sa.sa_flags = libc::SA_ONSTACK | libc::SA_NODEFER;
            libc::sigemptyset(&mut sa.sa_mask);
            libc::sigaction(sig, &sa, std::ptr::null_mut());
        }
    }
}

/// `VERIF_SKIP=<family no>:<index>,...`: cases that brought the process down in an earlier attempt of
/// this run and are left out so that the rest of the enumeration can be judged (set by the driver for
/// the properties whose statement does not cover crashes; the crash itself is C04's subject).
fn skipped_cases() -> &'static std::collections::HashSet<(usize, u64)> {
    static SKIP: std::sync::OnceLock<std::collections::HashSet<(usize, u64)>> = std::sync::OnceLock::new();
    SKIP.get_or_init(|| {
        std::env::var("VERIF_SKIP")
            .unwrap_or_default()
            .split(',')
            .filter_map(|t| {
                let (a, b) = t.split_once(':')?;
                Some((a.parse().ok()?, b.parse().ok()?))
            })
            .collect()
    })
}

/// `VERIF_ONLY=<family no>:<index>` restricts every sweep to that single case (used by the driver to
/// find the case that crashes the process).
fn only_case() -> Option<(usize, u64)> {
    let v = std::env::var("VERIF_ONLY").ok()?;
    let (a, b) = v.split_once(':')?;
    Some((a.parse().ok()?, b.parse().ok()?))
}

pub fn threads() -> usize {
    std::env::var("VERIF_THREADS")
        .ok()
        .and_then(|s| s.parse().ok())
        .unwrap_or_else(|| std::thread::available_parallelism().map(|n| n.get()).unwrap_or(8))
}

pub struct Slot {
    idx: AtomicU64,
    started: AtomicU64,
    abandoned: AtomicBool,
    finished: AtomicBool,
    /// set by the monitor when the current execution exceeds the wall limit; the provider
    /// answers `should_cancel_with_value` with a kill token so that a looping solve returns
    kill: AtomicBool,
}

thread_local! {
    static CURRENT_SLOT: std::cell::RefCell<Option<std::sync::Arc<Slot>>> = const { std::cell::RefCell::new(None) };
}

/// Clears a kill request for the execution on this thread and restarts its wall clock (used to
/// re-run a case once before non-termination is reported: on a loaded machine a healthy
/// execution can be descheduled for longer than the limit).
pub fn rearm() {
    CURRENT_SLOT.with(|s| {
        if let Some(sl) = s.borrow().as_ref() {
            sl.started.store(REARM_CLOCK.with(|c| c.get().map_or(0, |t| t.elapsed().as_millis() as u64)), Ordering::SeqCst);
            sl.kill.store(false, Ordering::SeqCst);
        }
    });
}

thread_local! {
    static REARM_CLOCK: std::cell::Cell<Option<Instant>> = const { std::cell::Cell::new(None) };
}

/// true if the monitor asked the execution running on this thread to stop
pub fn kill_requested() -> bool {
    CURRENT_SLOT.with(|s| s.borrow().as_ref().map_or(false, |sl| sl.kill.load(Ordering::Relaxed)))
}

struct Shared {
    next: AtomicU64,
    merged: Mutex<Acc>,
    slots: Mutex<Vec<std::sync::Arc<Slot>>>,
    n_items: u64,
    chunk: u64,
    stride: u64,
    offset: u64,
    fam_no: usize,
    t0: Instant,
}

type Body = dyn Fn(u64, &Case, &mut Acc) + Sync;

fn spawn_worker(sh: std::sync::Arc<Shared>, fam: &'static dyn Family, body: &'static Body) -> std::sync::Arc<Slot> {
    let slot = std::sync::Arc::new(Slot {
        idx: AtomicU64::new(u64::MAX),
        started: AtomicU64::new(0),
        abandoned: AtomicBool::new(false),
        finished: AtomicBool::new(false),
        kill: AtomicBool::new(false),
    });
    sh.slots.lock().unwrap().push(slot.clone());
    let my = slot.clone();
    let crumb = (NEXT_CRUMB.fetch_add(1, Ordering::Relaxed) as usize) % N_CRUMBS;
    std::thread::Builder::new()
        .stack_size(64 << 20)
        .spawn(move || {
            CURRENT_SLOT.with(|s| *s.borrow_mut() = Some(my.clone()));
            REARM_CLOCK.with(|c| c.set(Some(sh.t0)));
            loop {
                let start = sh.next.fetch_add(sh.chunk, Ordering::Relaxed);
                if start >= sh.n_items {
                    break;
                }
                let end = (start + sh.chunk).min(sh.n_items);
                let mut acc = Acc::default();
                for k in start..end {
                    let idx = sh.offset + k * sh.stride;
                    if !skipped_cases().is_empty() && skipped_cases().contains(&(sh.fam_no, idx)) {
                        acc.count("cases_skipped_because_they_crash_the_process");
                        continue;
                    }
                    my.started.store(sh.t0.elapsed().as_millis() as u64, Ordering::SeqCst);
                    my.idx.store(idx, Ordering::SeqCst);
                    CRUMB_FAM[crumb].store(sh.fam_no as u64, Ordering::Relaxed);
                    CRUMB_IDX[crumb].store(idx, Ordering::Relaxed);
                    let r = std::panic::catch_unwind(std::panic::AssertUnwindSafe(|| {
                        let case = fam.get(idx);
                        body(idx, &case, &mut acc);
                    }));
                    my.idx.store(u64::MAX, Ordering::SeqCst);
                    CRUMB_IDX[crumb].store(u64::MAX, Ordering::Relaxed);
                    if my.kill.swap(false, Ordering::SeqCst) {
                        acc.count("executions_stopped_by_kill_switch");
                    }
                    if my.abandoned.load(Ordering::SeqCst) {
                        // declared stuck by the monitor: its case was already reported and a
                        // replacement took over; never touch shared data again
                        loop {
                            std::thread::park();
                        }
                    }
                    PROCESSED.fetch_add(1, Ordering::Relaxed);
                    if r.is_err() {
                        // a panic outside the guarded solver call is a bug of the harness, never a verdict
                        eprintln!("MACHINERY ERROR: harness panicked at family {} index {idx}", sh.fam_no);
                        std::process::exit(2);
                    }
                }
                sh.merged.lock().unwrap().merge(acc);
            }
            my.finished.store(true, Ordering::SeqCst);
        })
        .unwrap();
    slot
}

/// Runs `body(index, case, acc)` for every index of the family (restricted by
/// stride/offset), on `threads` workers. Returns the merged accumulator.
pub fn sweep<'a>(fam: &'a (dyn Family + 'a), opts: &SweepOpts, body: &'a (dyn Fn(u64, &Case, &mut Acc) + Sync + 'a)) -> Acc {
    if GAVE_UP.load(Ordering::SeqCst) {
        let mut a = Acc::default();
        a.count("sweep_skipped_after_giving_up");
        return a;
    }
    let len = fam.len();
    let mut stride = opts.stride.max(1);
    let mut offset = opts.offset;
    let mut n_items = if len > opts.offset { (len - opts.offset + stride - 1) / stride } else { 0 };
    if let Some((f, i)) = only_case() {
        if f == opts.fam_no && i < len {
            stride = 1;
            offset = i;
            n_items = 1;
        } else {
            n_items = 0;
        }
    }
    // SAFETY: worker threads only use these references while the sweep runs; a worker that is
    // abandoned because its execution hangs never touches them again (it parks forever), and
    // the process ends with std::process::exit.
    let fam_s: &'static (dyn Family + 'static) = unsafe { std::mem::transmute::<&'a (dyn Family + 'a), &'static (dyn Family + 'static)>(fam) };
    let body_s: &'static Body = unsafe { std::mem::transmute::<&'a (dyn Fn(u64, &Case, &mut Acc) + Sync + 'a), &'static Body>(body) };
    let sh = std::sync::Arc::new(Shared {
        next: AtomicU64::new(0),
        merged: Mutex::new(Acc::default()),
        slots: Mutex::new(vec![]),
        n_items,
        chunk: (n_items / (opts.threads as u64 * 16)).clamp(1, 256),
        stride,
        offset,
        fam_no: opts.fam_no,
        t0: Instant::now(),
    });
    for _ in 0..opts.threads {
        spawn_worker(sh.clone(), fam_s, body_s);
    }
    let mut stuck_here = 0usize;
    // The age of an execution is measured in monitor ticks, not in wall-clock time: if the whole
    // process (or virtual machine) is paused, the monitor is paused with it and nothing ages.
    let tick_ms: u64 = if n_items < 5000 { 2 } else { 50 };
    let mut ages: std::collections::HashMap<usize, (u64, u64, u64)> = std::collections::HashMap::new(); // slot ptr -> (idx, started, age in ms of ticks)
    loop {
        std::thread::sleep(std::time::Duration::from_millis(tick_ms));
        let slots: Vec<std::sync::Arc<Slot>> = sh.slots.lock().unwrap().clone();
        let mut all_done = true;
        for sl in &slots {
            if sl.abandoned.load(Ordering::SeqCst) || sl.finished.load(Ordering::SeqCst) {
                continue;
            }
            all_done = false;
            let i = sl.idx.load(Ordering::SeqCst);
            let started = sl.started.load(Ordering::SeqCst);
            let key = std::sync::Arc::as_ptr(sl) as usize;
            let e = ages.entry(key).or_insert((i, started, 0));
            if e.0 == i && e.1 == started && i != u64::MAX {
                e.2 += tick_ms;
            } else {
                *e = (i, started, 0);
            }
            // `st`/`now` keep the arithmetic below unchanged: now - st = age in ticked milliseconds
            let st = 0u64;
            let now = e.2;
            if i != u64::MAX && now > st + opts.wall_limit_s * 1000 && sl.idx.load(Ordering::SeqCst) == i {
                // first ask nicely: a solve that loops through propagate / provider calls returns
                // as soon as it polls should_cancel_with_value
                if !sl.kill.swap(true, Ordering::SeqCst) {
                    // every execution that needs the kill switch costs wall_limit seconds: give up
                    // on the enumeration when there are too many of them
                    if KILLED.fetch_add(1, Ordering::SeqCst) as usize >= MAX_KILLED && !GAVE_UP.swap(true, Ordering::SeqCst) {
                        eprintln!("NOTE: more than {MAX_KILLED} executions had to be stopped by the kill switch; the rest of the enumeration is abandoned");
                        sh.next.store(u64::MAX / 2, Ordering::SeqCst);
                        sh.merged.lock().unwrap().count("sweep_abandoned_too_many_hangs");
                    }
                }
                if now <= st + (opts.wall_limit_s + 5) * 1000 {
                    continue;
                }
                sl.abandoned.store(true, Ordering::SeqCst);
                stuck_here += 1;
                ABANDONED.fetch_add(1, Ordering::SeqCst);
                let v = (opts.on_stuck)(opts.fam_no, i);
                {
                    let mut m = sh.merged.lock().unwrap();
                    m.count("executions_exceeding_wall_limit");
                    if let Some(v) = v {
                        m.violation(v);
                    }
                }
                if ABANDONED.load(Ordering::SeqCst) as usize > MAX_STUCK {
                    // too many spinning threads: stop handing out work, let the healthy workers
                    // finish their chunk and return what was gathered so far
                    if !GAVE_UP.swap(true, Ordering::SeqCst) {
                        eprintln!("NOTE: more than {MAX_STUCK} executions exceeded the wall limit; the rest of the enumeration is abandoned");
                    }
                    sh.next.store(u64::MAX / 2, Ordering::SeqCst);
                    sh.merged.lock().unwrap().count("sweep_abandoned_too_many_hangs");
                } else {
                    spawn_worker(sh.clone(), fam_s, body_s);
                }
            }
        }
        if all_done {
            break;
        }
    }
    let mut acc = std::mem::take(&mut *sh.merged.lock().unwrap());
    acc.finalize();
    acc
}
