//! Parallel exhaustive sweep over an indexable family + accumulation of
//! counters, samples and violations in deterministic (index) order.

use std::{
    collections::{BTreeMap, HashSet},
    hash::{Hash, Hasher},
    sync::{
        atomic::{AtomicBool, AtomicU64, Ordering},
        Mutex,
    },
    time::Instant,
};

use serde_json::Value;

use crate::families::Family;
use crate::universe::Case;

#[derive(Clone, Debug)]
pub struct Violation {
    pub property: String,
    /// stable identification of *what* fails (known-findings key)
    pub signature: String,
    pub what: String,
    pub replay: Value,
    pub order: (usize, u64, u32),
}

#[derive(Default)]
pub struct Acc {
    pub evaluations: u64,
    pub counters: BTreeMap<String, u64>,
    pub violations: Vec<Violation>,
    pub samples: Vec<Value>,
    pub nontrivial: HashSet<u64>,
    pub distinct: HashSet<u64>,
    pub track_distinct: bool,
}

pub const MAX_VIOL_PER_SIG: usize = 3;
pub const MAX_SAMPLES: usize = 6;

impl Acc {
    pub fn count(&mut self, k: &str) {
        *self.counters.entry(k.to_string()).or_insert(0) += 1;
    }
    pub fn add(&mut self, k: &str, n: u64) {
        let e = self.counters.entry(k.to_string()).or_insert(0);
        *e = e.wrapping_add(n);
    }
    pub fn max(&mut self, k: &str, n: u64) {
        let e = self.counters.entry(k.to_string()).or_insert(0);
        if n > *e {
            *e = n;
        }
    }
    pub fn get(&self, k: &str) -> u64 {
        self.counters.get(k).copied().unwrap_or(0)
    }
    pub fn violation(&mut self, v: Violation) {
        let n = self
            .violations
            .iter()
            .filter(|x| x.signature == v.signature && x.property == v.property)
            .count();
        self.count(&format!("violations[{}]", v.signature));
        if n < MAX_VIOL_PER_SIG {
            self.violations.push(v);
        }
    }
    pub fn sample(&mut self, f: impl FnOnce() -> Value) {
        if self.samples.len() < MAX_SAMPLES {
            self.samples.push(f());
        }
    }
    pub fn mark_nontrivial(&mut self, h: u64) {
        self.nontrivial.insert(h);
    }
    pub fn merge(&mut self, o: Acc) {
        self.evaluations += o.evaluations;
        for (k, v) in o.counters {
            if k.starts_with("max:") {
                let e = self.counters.entry(k).or_insert(0);
                *e = (*e).max(v);
            } else {
                let e = self.counters.entry(k).or_insert(0);
                *e = e.wrapping_add(v);
            }
        }
        self.violations.extend(o.violations);
        for s in o.samples {
            if self.samples.len() < MAX_SAMPLES {
                self.samples.push(s);
            }
        }
        self.nontrivial.extend(o.nontrivial);
        self.distinct.extend(o.distinct);
    }
    pub fn finalize(&mut self) {
        self.violations.sort_by(|a, b| a.order.cmp(&b.order));
        let mut kept: Vec<Violation> = vec![];
        for v in std::mem::take(&mut self.violations) {
            if kept
                .iter()
                .filter(|x| x.signature == v.signature && x.property == v.property)
                .count()
                < MAX_VIOL_PER_SIG
            {
                kept.push(v);
            }
        }
        self.violations = kept;
    }
}

pub fn case_hash(c: &Case) -> u64 {
    #[allow(deprecated)]
    let mut h = std::hash::SipHasher::new_with_keys(0x5eed, 0xc0ffee);
    c.u.hash(&mut h);
    c.p.hash(&mut h);
    h.finish()
}

pub struct SweepOpts {
    pub threads: usize,
    /// per-execution wall limit in seconds (a stuck worker is reported and the process exits)
    pub wall_limit_s: u64,
    /// called by the monitor when a worker is stuck: (family index in the plan, case index)
    pub on_stuck: Box<dyn Fn(usize, u64) + Sync + Send>,
    pub fam_no: usize,
    /// explore only every `stride`-th index starting at `offset` (1/0 = everything)
    pub stride: u64,
    pub offset: u64,
}

pub fn threads() -> usize {
    std::env::var("VERIF_THREADS")
        .ok()
        .and_then(|s| s.parse().ok())
        .unwrap_or_else(|| std::thread::available_parallelism().map(|n| n.get()).unwrap_or(8))
}

/// Runs `body(index, case, acc)` for every index of the family (restricted by
/// stride/offset), on `threads` workers. Returns the merged accumulator.
pub fn sweep(
    fam: &dyn Family,
    opts: &SweepOpts,
    body: &(dyn Fn(u64, &Case, &mut Acc) + Sync),
) -> Acc {
    let len = fam.len();
    let stride = opts.stride.max(1);
    let n_items = if len > opts.offset { (len - opts.offset + stride - 1) / stride } else { 0 };
    let next = AtomicU64::new(0);
    let stop = AtomicBool::new(false);
    let chunk: u64 = (n_items / (opts.threads as u64 * 16)).clamp(1, 256);
    let slots: Vec<(AtomicU64, AtomicU64)> = (0..opts.threads)
        .map(|_| (AtomicU64::new(u64::MAX), AtomicU64::new(0)))
        .collect();
    let t0 = Instant::now();
    let merged = Mutex::new(Acc::default());
    std::thread::scope(|sc| {
        // monitor
        let stop_ref = &stop;
        let slots_ref = &slots;
        let mon = sc.spawn(move || {
            while !stop_ref.load(Ordering::Relaxed) {
                std::thread::sleep(std::time::Duration::from_millis(200));
                let now = t0.elapsed().as_millis() as u64;
                for (idx, started) in slots_ref.iter() {
                    let i = idx.load(Ordering::Relaxed);
                    let s = started.load(Ordering::Relaxed);
                    if i != u64::MAX && now > s + opts.wall_limit_s * 1000 {
                        (opts.on_stuck)(opts.fam_no, i);
                        std::process::exit(1);
                    }
                }
            }
        });
        let mut handles = vec![];
        for t in 0..opts.threads {
            let next = &next;
            let merged = &merged;
            let slots = &slots;
            handles.push(
                std::thread::Builder::new()
                    .stack_size(64 << 20)
                    .spawn_scoped(sc, move || {
                        let mut acc = Acc::default();
                        loop {
                            let start = next.fetch_add(chunk, Ordering::Relaxed);
                            if start >= n_items {
                                break;
                            }
                            let end = (start + chunk).min(n_items);
                            for k in start..end {
                                let idx = opts.offset + k * stride;
                                slots[t].1.store(t0.elapsed().as_millis() as u64, Ordering::Relaxed);
                                slots[t].0.store(idx, Ordering::Relaxed);
                                let r = std::panic::catch_unwind(std::panic::AssertUnwindSafe(|| {
                                    let case = fam.get(idx);
                                    body(idx, &case, &mut acc);
                                }));
                                if r.is_err() {
                                    // a panic outside the guarded solver call is a bug of the harness, never a verdict
                                    eprintln!("MACHINERY ERROR: harness panicked at family {} index {idx}", opts.fam_no);
                                    std::process::exit(2);
                                }
                            }
                            slots[t].0.store(u64::MAX, Ordering::Relaxed);
                        }
                        slots[t].0.store(u64::MAX, Ordering::Relaxed);
                        merged.lock().unwrap().merge(acc);
                    })
                    .unwrap(),
            );
        }
        for h in handles {
            h.join().unwrap();
        }
        stop.store(true, Ordering::Relaxed);
        mon.join().unwrap();
    });
    let mut acc = merged.into_inner().unwrap();
    acc.finalize();
    acc
}
