#![allow(dead_code)]
use rvmc::{e6, oracle, plans, report, run};

use std::{path::PathBuf, time::Instant};

use report::{Ctx, Tier};

fn usage() -> ! {
    eprintln!("usage: rvmc <C01..C20> [--tier quick|thorough] [--out FILE] | rvmc replay FILE | rvmc selfcheck");
    std::process::exit(2);
}

fn main() {
    run::install_panic_hook();
    rvmc::sweep::install_crash_handler();
    let args: Vec<String> = std::env::args().collect();
    if args.len() < 2 {
        usage();
    }
    let pass = if cfg!(debug_assertions) { "dbg" } else { "release" };
    if args[1] == "C06" || args[1] == "C06-child" || (args[1] == "replay" && args.get(2).map_or(false, |p| p.contains("/C06/"))) {
        // must happen before the first ahash RandomState is created
        e6::install_seed_source();
    }
    if args[1] == "C06-child" {
        let tier = if args.get(2).map(|s| s.as_str()) == Some("thorough") { Tier::Thorough } else { Tier::Quick };
        println!("{:016x}", e6::child_digest(&tier));
        return;
    }
    if args[1] == "selfcheck" {
        match oracle::self_check() {
            Ok(()) => {
                println!("oracle self-check ok");
                return;
            }
            Err(e) => {
                eprintln!("MACHINERY ERROR: {e}");
                std::process::exit(2);
            }
        }
    }
    if args[1] == "stress" {
        plans::stress(args.get(2).unwrap_or_else(|| usage()), args.get(3).and_then(|s| s.parse().ok()).unwrap_or(100000));
        return;
    }
    if args[1] == "sizes" {
        plans::sizes();
        return;
    }
    if args[1] == "show" {
        let path = args.get(2).unwrap_or_else(|| usage());
        plans::show(path);
        return;
    }
    if args[1] == "replay" {
        let path = args.get(2).unwrap_or_else(|| usage());
        std::process::exit(plans::replay(path));
    }
    let prop = args[1].clone();
    let mut tier = match std::env::var("VERIF_TIER").as_deref() {
        Ok("thorough") => Tier::Thorough,
        _ => Tier::Quick,
    };
    let mut out: Option<PathBuf> = None;
    let mut i = 2;
    while i < args.len() {
        match args[i].as_str() {
            "--tier" => {
                tier = match args.get(i + 1).map(|s| s.as_str()) {
                    Some("quick") => Tier::Quick,
                    Some("thorough") => Tier::Thorough,
                    _ => usage(),
                };
                i += 2;
            }
            "--out" => {
                out = Some(PathBuf::from(args.get(i + 1).unwrap_or_else(|| usage())));
                i += 2;
            }
            _ => usage(),
        }
    }
    let seed: u64 = std::env::var("VERIF_SEED")
        .ok()
        .and_then(|s| s.parse().ok())
        .unwrap_or(0);
    let ctx = Ctx {
        out: out.unwrap_or_else(|| {
            report::verif_root()
                .join("evidence")
                .join(format!("{prop}.{pass}.part.json"))
        }),
        property: prop.clone(),
        tier,
        seed,
        pass: pass.to_string(),
        t0: Instant::now(),
    };
    if let Err(e) = oracle::self_check() {
        eprintln!("MACHINERY ERROR: {e}");
        std::process::exit(2);
    }
    let code = plans::run_property(&ctx);
    std::process::exit(code);
}
