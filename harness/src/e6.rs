//! C06: same problem, same answer. Every instance is solved under K fixed
//! hash-seed vectors x 2 fresh solvers in this process (ahash seeds under
//! harness control: `set_random_source` + `--cfg fuzzing` makes ahash's fixed
//! keys compile-time constants), and the whole batch is digested again in
//! separate child processes with uncontrolled (ASLR / OS random) seeds.

use std::cell::Cell;
use std::hash::{Hash, Hasher};

use serde_json::json;

use crate::families::*;
use crate::report::{Ctx, Report, Tier};
use crate::run::*;
use crate::sweep::*;
use crate::universe::*;

thread_local! {
    static SEED: Cell<u64> = const { Cell::new(0) };
    static CTR: Cell<u64> = const { Cell::new(0) };
    static CONTROLLED: Cell<bool> = const { Cell::new(false) };
}

struct Src;
impl ahash::random_state::RandomSource for Src {
    fn gen_hasher_seed(&self) -> usize {
        let c = CTR.with(|c| {
            let v = c.get();
            c.set(v + 1);
            v
        });
        let s = SEED.with(|s| s.get());
        if CONTROLLED.with(|c| c.get()) {
            // splitmix64 of (seed, counter)
            let mut z = s.wrapping_add(c.wrapping_mul(0x9E3779B97F4A7C15)).wrapping_add(0x9E3779B97F4A7C15);
            z = (z ^ (z >> 30)).wrapping_mul(0xBF58476D1CE4E5B9);
            z = (z ^ (z >> 27)).wrapping_mul(0x94D049BB133111EB);
            (z ^ (z >> 31)) as usize
        } else {
            // uncontrolled (child processes): address-dependent like ahash's default source
            let stack = &c as *const _ as usize;
            stack.wrapping_mul(31).wrapping_add(c as usize)
        }
    }
}

pub fn install_seed_source() {
    let _ = ahash::random_state::set_random_source(Src);
}

fn with_seed<T>(seed: u64, f: impl FnOnce() -> T) -> T {
    SEED.with(|s| s.set(seed));
    CTR.with(|c| c.set(0));
    CONTROLLED.with(|c| c.set(true));
    let r = f();
    CONTROLLED.with(|c| c.set(false));
    r
}

/// iteration order of a small ahash set under a seed (probe that seed control works)
fn probe_order(seed: u64, n: u32) -> Vec<u32> {
    with_seed(seed, || {
        let mut s: ahash::HashSet<u32> = ahash::HashSet::default();
        for i in 0..n {
            s.insert(i * 7 + 1);
        }
        s.into_iter().collect()
    })
}

fn observable(case: &Case, hint: Option<Hint>) -> String {
    let mut cfg = RunCfg::default();
    cfg.render = true;
    cfg.hint_override = hint;
    let res = run_case(&case.u, &case.p, &cfg);
    match &res.outcome {
        Outcome::Ok(sol) => format!("Ok{sol:?}"),
        Outcome::Unsat => format!("Unsat:{}", res.rendered.message.clone().unwrap_or_default()),
        o => o.short(),
    }
}

fn families(tier: &Tier) -> Vec<(Box<dyn Family>, u64)> {
    let q = *tier == Tier::Quick;
    vec![
        (Box::new(Grid::f1().with_root(RootMenu::Full)), 1),
        (Box::new(Decorated::new("F3 skeletons", skeletons(), if q { 1 } else { 2 }, false, &|_| true)), 1),
        (crate::plans::f4(tier), if q { 257 } else { 17 }),
        // several independent dead ends at once (exclusions, unknown dependencies, requirements without
        // candidates): the order in which such assertions are applied must not show in the result
        (
            Box::new(Decorated::new("F3 skeletons x dead-end decorations", skeletons(), if q { 2 } else { 3 }, false, &|d| {
                matches!(d, Deco::Exclude(_, true) | Deco::Unknown(_) | Deco::AddReq(_, VsSpec::Empty(_)) | Deco::AddReq(_, VsSpec::Missing) | Deco::Lock(_))
            })),
            1,
        ),
        // one solvable (or the root) constraining several version sets at once, all of them part of the
        // conflict: the message lists them and their order must not depend on a hash container
        (
            Box::new(Decorated::new("F3 skeletons x constrains decorations", skeletons(), if q { 2 } else { 3 }, false, &|d| matches!(d, Deco::AddCons(..)))),
            1,
        ),
        (Box::new(F9 { wide: true }), if q { 64 } else { 4 }),
        // soft requirements: ordered lists, repeated entries, conflicting entries (the listed order is the
        // priority order and shows in the returned solution)
        (Box::new(F11), if q { 16 } else { 2 }),
        (Box::new(F13), 1),
        (
            Box::new(Decorated::new_with("F5 soft skeletons", soft_skeletons(), 2, false, &|_, d| matches!(d, Deco::Soft(_)))),
            if q { 2 } else { 1 },
        ),
        // every package displays the same name (e.g. channel-qualified names that print alike): nodes of
        // different packages can then end up in one merged group of the message
        (
            Box::new(crate::plans::ExpandOwned {
                label: "all packages display the same name".into(),
                base: Box::new(Decorated::new("F3 skeletons", skeletons(), 1, false, &|_| true)),
                mult: 1,
                f: Box::new(|mut c: Case, _| {
                    for n in c.u.names.iter_mut() {
                        n.label = "pkg".into();
                    }
                    c
                }),
            }),
            1,
        ),
    ]
}

fn seeds(ctx_seed: u64, k: usize) -> Vec<u64> {
    (0..k as u64).map(|i| 0x1234_5678_9abc_def0u64.wrapping_mul(i + 1) ^ ctx_seed.wrapping_mul(0x9E37)).collect()
}

/// digest of the whole batch with whatever seeds this process happens to have
pub fn child_digest(tier: &Tier) -> u64 {
    let mut total: u64 = 0;
    for (fi, (fam, stride)) in families(tier).iter().enumerate() {
        let opts = SweepOpts {
            threads: threads(),
            wall_limit_s: 120,
            on_stuck: Box::new(|_, idx| { eprintln!("MACHINERY ERROR: C06 child stuck at {idx}"); None }),
            fam_no: fi,
            stride: *stride,
            offset: 0,
        };
        let acc = sweep(&**fam, &opts, &|idx, case, acc| {
            if case.u.well_formed(&case.p).is_err() {
                return;
            }
            let o = observable(case, None);
            #[allow(deprecated)]
            let mut h = std::hash::SipHasher::new_with_keys(9, 9);
            (fi, idx, &o).hash(&mut h);
            // order independent combination
            acc.add("digest", h.finish() >> 8);
        });
        total = total.wrapping_add(acc.get("digest"));
    }
    total
}

pub fn run(ctx: &Ctx) -> i32 {
    let q = ctx.tier == Tier::Quick;
    let k = if q { 4 } else { 16 };
    let seed_list = seeds(ctx.seed, k);
    let mut rep = Report::new(
        "exploration",
        "every instance of F1 / F3 (<= 1 or 2 decorations) / a slice of F4 is solved under K fixed ahash seed vectors x 2 fresh solver instances (hints as-is and All); the solution vector (order included) or the user-friendly conflict message must be identical across all runs; the whole batch is digested again in separate child processes with uncontrolled seeds; non-trivial = distinct instances whose result is a conflict message or a solution of >= 2 solvables",
    );
    rep.assumptions.push("hash seeds are enumerated from a fixed finite list (2^256 possible); std's SipHash keys in conflict.rs are varied per instance but not controlled".into());
    rep.assumptions.push(format!("ahash fixed keys are compile-time constants: {}", cfg!(fuzzing)));
    // seed-control probe
    let mut orders = std::collections::BTreeSet::new();
    for &s in &seed_list {
        for n in 2..=5 {
            let a = probe_order(s, n);
            let b = probe_order(s, n);
            if a != b {
                rep.machinery_errors.push("seed control broken: same seed, different iteration order".into());
            }
            if n == 5 {
                orders.insert(a);
            }
        }
    }
    rep.extra.insert("probe_distinct_iteration_orders_of_a_5_element_set".into(), json!(orders.len()));
    if orders.len() < 2 {
        rep.machinery_errors.push("seed control broken: all seeds give the same iteration order".into());
    }
    for (fi, (fam, stride)) in families(&ctx.tier).iter().enumerate() {
        let opts = SweepOpts {
            threads: threads(),
            wall_limit_s: 120,
            on_stuck: Box::new(|_, idx| { eprintln!("MACHINERY ERROR: C06 stuck at {idx}"); None }),
            fam_no: fi,
            stride: *stride,
            offset: 0,
        };
        let seed_list = &seed_list;
        let acc = sweep(&**fam, &opts, &|idx, case, acc| {
            if case.u.well_formed(&case.p).is_err() {
                return;
            }
            acc.count("cases");
            for (hi, hint) in [None, Some(Hint::All)].into_iter().enumerate() {
                let mut first: Option<String> = None;
                for &s in seed_list.iter() {
                    for rep_no in 0..2 {
                        let o = with_seed(s.wrapping_add(rep_no * 0x51_7cc1), || observable(case, hint.clone()));
                        acc.evaluations += 1;
                        match &first {
                            None => first = Some(o),
                            Some(f) if *f != o => {
                                let kind = if f.starts_with("Ok") && o.starts_with("Ok") {
                                    "solution-differs"
                                } else if f.starts_with("Unsat") && o.starts_with("Unsat") {
                                    "message-differs"
                                } else {
                                    "verdict-differs"
                                };
                                acc.violation(Violation {
                                    property: "C06".into(),
                                    signature: kind.into(),
                                    what: format!("two runs of the same problem differ: {:?} vs {:?}", f.chars().take(200).collect::<String>(), o.chars().take(200).collect::<String>()),
                                    replay: json!({"kind": "c06", "case": case, "seeds": seed_list, "hint_all": hi == 1, "universe": case.u.describe(&case.p)}),
                                    order: (fi, idx, hi as u32),
                                });
                                return;
                            }
                            _ => {}
                        }
                    }
                }
                if let Some(f) = &first {
                    if f.starts_with("Unsat") {
                        acc.count("messages_compared");
                        acc.mark_nontrivial(case_hash(case));
                    } else if f.matches(',').count() >= 1 {
                        acc.count("solutions_compared");
                        acc.mark_nontrivial(case_hash(case));
                    }
                }
            }
            acc.sample(|| json!({"universe": case.u.describe(&case.p)}));
        });
        eprintln!("[C06] {}: {} cases, {} runs, {:.1}s", fam.name(), acc.get("cases"), acc.evaluations, ctx.t0.elapsed().as_secs_f64());
        rep.push(&format!("{}{}", fam.name(), if *stride > 1 { format!(" (every {stride}th index)") } else { String::new() }), acc, *stride == 1, fam.len());
    }
    // separate processes
    let n_children = if q { 2 } else { 4 };
    let exe = std::env::current_exe().expect("exe");
    let mut digests = vec![];
    for _ in 0..n_children {
        let out = std::process::Command::new(&exe)
            .arg("C06-child")
            .arg(ctx.tier.as_str())
            .output();
        match out {
            Ok(o) if o.status.success() => digests.push(String::from_utf8_lossy(&o.stdout).trim().to_string()),
            Ok(o) => rep.machinery_errors.push(format!("child process failed: {}", String::from_utf8_lossy(&o.stderr))),
            Err(e) => rep.machinery_errors.push(format!("cannot spawn child: {e}")),
        }
    }
    rep.extra.insert("batch_digests_of_separate_processes".into(), json!(digests));
    if digests.windows(2).any(|w| w[0] != w[1]) {
        let mut acc = Acc::default();
        acc.evaluations = 1;
        acc.violation(Violation {
            property: "C06".into(),
            signature: "cross-process-digest-differs".into(),
            what: format!("separate processes computed different batch digests: {digests:?}"),
            replay: json!({"kind": "c06-digest", "digests": digests}),
            order: (99, 0, 0),
        });
        rep.push("cross-process digests", acc, true, n_children as u64);
    }
    let a = rep.counter("messages_compared");
    let b = rep.counter("solutions_compared");
    rep.require(a > 100 && b > 100, "nothing compared");
    rep.finish(ctx)
}

pub fn replay(v: &serde_json::Value) -> Vec<String> {
    if v["kind"] != "c06" {
        return vec![];
    }
    let case: Case = serde_json::from_value(v["case"].clone()).expect("case");
    let seeds: Vec<u64> = serde_json::from_value(v["seeds"].clone()).expect("seeds");
    let hint = if v["hint_all"] == true { Some(Hint::All) } else { None };
    let mut first: Option<String> = None;
    for s in seeds {
        for rep_no in 0..2u64 {
            let o = with_seed(s.wrapping_add(rep_no * 0x51_7cc1), || observable(&case, hint.clone()));
            match &first {
                None => first = Some(o),
                Some(f) if *f != o => return vec!["differs".into()],
                _ => {}
            }
        }
    }
    vec![]
}
