//! Rust side of the C17 differential driver: enumerates universes (reusing the
//! harness families), flattens them to u32 tables for the C++ provider, solves
//! the same table with the Rust API as the reference, reports struct layouts,
//! and installs a global allocator that checks every deallocation layout.

use std::alloc::{GlobalAlloc, Layout, System};
use std::sync::atomic::{AtomicU64, AtomicUsize, Ordering};

use rvmc::families::*;
use rvmc::provider::Prov;
use rvmc::universe::*;

// keep the FFI symbols of resolvo_cpp in the static library
#[doc(hidden)]
pub use resolvo_cpp::resolvo_solve as _keep_resolvo_solve;

// ---------------------------------------------------------------------------
// layout-checking allocator
// ---------------------------------------------------------------------------

const SLOTS: usize = 1 << 20;
struct Entry {
    ptr: AtomicUsize,
    size: AtomicUsize,
    align: AtomicUsize,
}
#[allow(clippy::declare_interior_mutable_const)]
const EMPTY: Entry = Entry {
    ptr: AtomicUsize::new(0),
    size: AtomicUsize::new(0),
    align: AtomicUsize::new(0),
};
static TABLE: [Entry; SLOTS] = [EMPTY; SLOTS];
static OUTSTANDING: AtomicU64 = AtomicU64::new(0);
static MISMATCHES: AtomicU64 = AtomicU64::new(0);
static TRACKING: AtomicUsize = AtomicUsize::new(0);
const TOMB: usize = 1;

struct Checking;

fn slot_of(p: usize) -> usize {
    (p >> 4).wrapping_mul(0x9E37_79B9_7F4A_7C15) >> (64 - 20)
}

unsafe impl GlobalAlloc for Checking {
    unsafe fn alloc(&self, layout: Layout) -> *mut u8 {
        let p = System.alloc(layout);
        if !p.is_null() && TRACKING.load(Ordering::Relaxed) != 0 {
            let mut i = slot_of(p as usize);
            loop {
                let cur = TABLE[i].ptr.load(Ordering::Acquire);
                if cur == 0 || cur == TOMB {
                    if TABLE[i].ptr.compare_exchange(cur, p as usize, Ordering::AcqRel, Ordering::Acquire).is_ok() {
                        TABLE[i].size.store(layout.size(), Ordering::Release);
                        TABLE[i].align.store(layout.align(), Ordering::Release);
                        OUTSTANDING.fetch_add(1, Ordering::Relaxed);
                        break;
                    }
                    continue;
                }
                i = (i + 1) & (SLOTS - 1);
            }
        }
        p
    }
    unsafe fn dealloc(&self, p: *mut u8, layout: Layout) {
        if TRACKING.load(Ordering::Relaxed) != 0 {
            let mut i = slot_of(p as usize);
            let mut probes = 0;
            loop {
                let cur = TABLE[i].ptr.load(Ordering::Acquire);
                if cur == p as usize {
                    let (s, a) = (TABLE[i].size.load(Ordering::Acquire), TABLE[i].align.load(Ordering::Acquire));
                    if s != layout.size() || a != layout.align() {
                        MISMATCHES.fetch_add(1, Ordering::Relaxed);
                        let msg = format!(
                            "LAYOUT-MISMATCH: block {:p} allocated with size {} align {} but freed with size {} align {}\n",
                            p,
                            s,
                            a,
                            layout.size(),
                            layout.align()
                        );
                        libc_write(&msg);
                    }
                    TABLE[i].ptr.store(TOMB, Ordering::Release);
                    OUTSTANDING.fetch_sub(1, Ordering::Relaxed);
                    break;
                }
                if cur == 0 || probes > SLOTS {
                    // allocated while tracking was off
                    break;
                }
                probes += 1;
                i = (i + 1) & (SLOTS - 1);
            }
        }
        System.dealloc(p, layout)
    }
}

fn libc_write(s: &str) {
    extern "C" {
        fn write(fd: i32, buf: *const u8, n: usize) -> isize;
    }
    unsafe {
        write(2, s.as_ptr(), s.len());
    }
}

#[global_allocator]
static GLOBAL: Checking = Checking;

/// Starts (1) / stops (0) tracking. Returns the number of blocks allocated since tracking
/// started that are still alive.
#[no_mangle]
pub extern "C" fn rv_track(on: u32) -> u64 {
    TRACKING.store(on as usize, Ordering::SeqCst);
    OUTSTANDING.load(Ordering::SeqCst)
}
#[no_mangle]
pub extern "C" fn rv_outstanding() -> u64 {
    OUTSTANDING.load(Ordering::SeqCst)
}
#[no_mangle]
pub extern "C" fn rv_mismatches() -> u64 {
    MISMATCHES.load(Ordering::SeqCst)
}

struct PauseTracking(usize);
impl PauseTracking {
    fn new() -> Self {
        PauseTracking(TRACKING.swap(0, Ordering::SeqCst))
    }
}
impl Drop for PauseTracking {
    fn drop(&mut self) {
        TRACKING.store(self.0, Ordering::SeqCst);
    }
}

// ---------------------------------------------------------------------------
// families and tables
// ---------------------------------------------------------------------------

fn family(fam: u32, tier: u32) -> Box<dyn Family> {
    let q = tier == 0;
    let filter = |d: &Deco| !matches!(d, Deco::Unknown(_));
    match fam {
        0 => Box::new(Decorated::new("F3 skeletons", skeletons(), if q { 1 } else { 2 }, false, &filter)),
        1 => Box::new(Grid::f1().with_root(RootMenu::AnyVersion)),
        _ => Box::new(Decorated::new_with("F5 soft skeletons", soft_skeletons(), 1, false, &|c, d| f5_filter(c, d) && !matches!(d, Deco::Unknown(_)))),
    }
}

#[no_mangle]
pub extern "C" fn rv_family_len(fam: u32, tier: u32) -> u64 {
    family(fam, tier).len()
}

fn push_str(out: &mut Vec<u32>, s: &str) {
    out.push(s.len() as u32);
    out.extend(s.bytes().map(|b| b as u32));
}

pub fn flatten(c: &Case) -> Option<Vec<u32>> {
    let u = &c.u;
    if u.well_formed(&c.p).is_err() {
        return None;
    }
    if u.solvs.iter().any(|s| matches!(s.deps, Deps::Unknown(_))) {
        return None; // the C++ interface cannot express unknown dependencies
    }
    let mut o = vec![
        u.names.len() as u32,
        u.solvs.len() as u32,
        u.vsets.len() as u32,
        u.unions.len() as u32,
        u.strings.len() as u32,
        c.p.reqs.len() as u32,
        c.p.cons.len() as u32,
        c.p.soft.len() as u32,
    ];
    for n in &u.names {
        push_str(&mut o, &n.label);
        o.push(n.missing as u32);
        o.push(n.favored.map_or(0, |f| f + 1));
        o.push(n.locked.map_or(0, |f| f + 1));
        o.push(n.cands.len() as u32);
        o.extend(&n.cands);
        o.push(n.excluded.len() as u32);
        for e in &n.excluded {
            o.push(e.0);
            o.push(e.1);
        }
        match &n.hint {
            Hint::None => o.push(0),
            Hint::All => {
                o.push(n.cands.len() as u32);
                o.extend(&n.cands);
            }
            Hint::Some(h) => {
                let h: Vec<u32> = h.iter().copied().filter(|s| n.cands.contains(s)).collect();
                o.push(h.len() as u32);
                o.extend(h);
            }
        }
    }
    let push_req = |o: &mut Vec<u32>, r: &Req| match r {
        Req::Single(v) => {
            o.push(0);
            o.push(*v)
        }
        Req::Union(x) => {
            o.push(1);
            o.push(*x)
        }
    };
    for s in &u.solvs {
        o.push(s.name);
        o.push(s.version);
        o.push(s.rank);
        o.push(s.deps.reqs().len() as u32);
        for r in s.deps.reqs() {
            push_req(&mut o, r);
        }
        o.push(s.deps.cons().len() as u32);
        o.extend(s.deps.cons());
    }
    for v in &u.vsets {
        o.push(v.name);
        o.push(v.members.len() as u32);
        o.extend(&v.members);
        push_str(&mut o, &v.label);
    }
    for un in &u.unions {
        o.push(un.len() as u32);
        o.extend(un);
    }
    for s in &u.strings {
        push_str(&mut o, s);
    }
    for r in &c.p.reqs {
        push_req(&mut o, r);
    }
    o.extend(&c.p.cons);
    o.extend(&c.p.soft);
    Some(o)
}

struct Rd<'a>(&'a [u32], usize);
impl Rd<'_> {
    fn u(&mut self) -> u32 {
        let v = self.0[self.1];
        self.1 += 1;
        v
    }
    fn s(&mut self) -> String {
        let n = self.u() as usize;
        (0..n).map(|_| self.u() as u8 as char).collect()
    }
    fn list(&mut self) -> Vec<u32> {
        let n = self.u() as usize;
        (0..n).map(|_| self.u()).collect()
    }
    fn req(&mut self) -> Req {
        let k = self.u();
        let id = self.u();
        if k == 0 {
            Req::Single(id)
        } else {
            Req::Union(id)
        }
    }
}

pub fn unflatten(t: &[u32]) -> Case {
    let mut r = Rd(t, 0);
    let (nn, ns, nv, nu, nstr, nr, nc, nsoft) = (r.u(), r.u(), r.u(), r.u(), r.u(), r.u(), r.u(), r.u());
    let mut u = Universe::default();
    for _ in 0..nn {
        let label = r.s();
        let missing = r.u() != 0;
        let favored = r.u();
        let locked = r.u();
        let cands = r.list();
        let ne = r.u();
        let excluded = (0..ne).map(|_| (r.u(), r.u())).collect();
        let hint = r.list();
        u.names.push(Name {
            label,
            missing,
            cands,
            favored: if favored == 0 { None } else { Some(favored - 1) },
            locked: if locked == 0 { None } else { Some(locked - 1) },
            excluded,
            // what the bridge can express: always an explicit list
            hint: Hint::Some(hint),
        });
    }
    for _ in 0..ns {
        let name = r.u();
        let version = r.u();
        let rank = r.u();
        let nreq = r.u();
        let reqs = (0..nreq).map(|_| r.req()).collect();
        let cons = r.list();
        u.solvs.push(Solv { name, version, rank, deps: Deps::Known { reqs, cons } });
    }
    for _ in 0..nv {
        let name = r.u();
        let members = r.list();
        let label = r.s();
        u.vsets.push(VSet { name, members, label });
    }
    for _ in 0..nu {
        u.unions.push(r.list());
    }
    for _ in 0..nstr {
        let s = r.s();
        u.strings.push(s);
    }
    let reqs = (0..nr).map(|_| r.req()).collect();
    let cons = (0..nc).map(|_| r.u()).collect();
    let soft = (0..nsoft).map(|_| r.u()).collect();
    // the bridge always answers Some(candidates), also for a package it does not know
    for n in u.names.iter_mut() {
        n.missing = false;
    }
    Case { u, p: Problem { reqs, cons, soft }, tag: String::new() }
}

/// Writes the flat table of case `idx`; returns its length, 0 if the case cannot be
/// expressed through the C++ interface, or the needed length if `cap` is too small.
#[no_mangle]
pub unsafe extern "C" fn rv_case_table(fam: u32, tier: u32, idx: u64, out: *mut u32, cap: usize) -> usize {
    // the cached family lives for the whole process: not a leak of the code under test
    let _pause = PauseTracking::new();
    thread_local! {
        static FAM: std::cell::RefCell<Option<((u32, u32), Box<dyn Family>)>> = const { std::cell::RefCell::new(None) };
    }
    FAM.with(|f| {
        let mut f = f.borrow_mut();
        if f.as_ref().map_or(true, |x| x.0 != (fam, tier)) {
            *f = Some(((fam, tier), family(fam, tier)));
        }
        let case = f.as_ref().unwrap().1.get(idx);
        match flatten(&case) {
            None => 0,
            Some(t) => {
                if t.len() <= cap {
                    std::ptr::copy_nonoverlapping(t.as_ptr(), out, t.len());
                }
                t.len()
            }
        }
    })
}

/// Solves the table with the Rust API. Output: "OK:1,2,3" or "ERR:<message>".
#[no_mangle]
pub unsafe extern "C" fn rv_ref_solve(table: *const u32, n: usize, out: *mut u8, cap: usize) -> usize {
    let t = std::slice::from_raw_parts(table, n);
    let case = unflatten(t);
    let mut prov = Prov::new(&case.u);
    prov.logging = false;
    let mut solver = resolvo::Solver::new(prov);
    let res = solver.solve(rvmc::run::to_problem(&case.p));
    let text = match res {
        Ok(sol) => format!("OK:{}", sol.iter().map(|s| s.0.to_string()).collect::<Vec<_>>().join(",")),
        Err(resolvo::UnsolvableOrCancelled::Unsolvable(c)) => format!("ERR:{}", c.display_user_friendly(&solver)),
        Err(resolvo::UnsolvableOrCancelled::Cancelled(_)) => "ERR:cancelled".to_string(),
    };
    let b = text.as_bytes();
    let k = b.len().min(cap.saturating_sub(1));
    std::ptr::copy_nonoverlapping(b.as_ptr(), out, k);
    *out.add(k) = 0;
    b.len()
}

/// A human readable description of a table (for replay files / evidence samples).
#[no_mangle]
pub unsafe extern "C" fn rv_describe(table: *const u32, n: usize, out: *mut u8, cap: usize) -> usize {
    let t = std::slice::from_raw_parts(table, n);
    let case = unflatten(t);
    let text = serde_json::to_string(&case.u.describe(&case.p)).unwrap_or_default();
    let b = text.as_bytes();
    let k = b.len().min(cap.saturating_sub(1));
    std::ptr::copy_nonoverlapping(b.as_ptr(), out, k);
    *out.add(k) = 0;
    b.len()
}

/// sizeof / alignof of every struct that crosses the boundary, as Rust sees them.
#[no_mangle]
pub unsafe extern "C" fn rv_layout(out: *mut u64, cap: usize) -> usize {
    use std::mem::{align_of, align_of_val, size_of, size_of_val};
    let deps = resolvo_cpp::Dependencies::default();
    let cands = resolvo_cpp::Candidates::default();
    let base = &cands as *const _ as usize;
    let v: Vec<u64> = vec![
        size_of::<resolvo_cpp::SolvableId>() as u64,
        align_of::<resolvo_cpp::SolvableId>() as u64,
        size_of::<resolvo_cpp::VersionSetId>() as u64,
        size_of::<resolvo_cpp::NameId>() as u64,
        size_of::<resolvo_cpp::StringId>() as u64,
        size_of::<resolvo_cpp::VersionSetUnionId>() as u64,
        size_of::<resolvo_cpp::Requirement>() as u64,
        align_of::<resolvo_cpp::Requirement>() as u64,
        size_of::<resolvo_cpp::ExcludedSolvable>() as u64,
        size_of::<resolvo_cpp::Dependencies>() as u64,
        align_of::<resolvo_cpp::Dependencies>() as u64,
        size_of::<resolvo_cpp::Candidates>() as u64,
        align_of::<resolvo_cpp::Candidates>() as u64,
        size_of::<resolvo_cpp::Problem>() as u64,
        size_of::<resolvo_cpp::DependencyProvider>() as u64,
        // Vector<T> handle
        size_of_val(&deps.requirements) as u64,
        align_of_val(&deps.requirements) as u64,
        // field offsets of Candidates
        (&cands.candidates as *const _ as usize - base) as u64,
        (&cands.favored as *const _ as usize - base) as u64,
        (&cands.locked as *const _ as usize - base) as u64,
        (&cands.hint_dependencies_available as *const _ as usize - base) as u64,
        (&cands.excluded as *const _ as usize - base) as u64,
        // offsets of Dependencies
        (&deps.constrains as *const _ as usize - &deps as *const _ as usize) as u64,
    ];
    for (i, x) in v.iter().enumerate().take(cap) {
        *out.add(i) = *x;
    }
    v.len()
}
