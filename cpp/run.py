#!/usr/bin/env python3
"""C17 driver: builds the Rust runtime (staticlib incl. resolvo_cpp, from /repo's working tree) and the
C++ differential driver (clang++-14, ASan+UBSan), runs it, runs a reduced pass under valgrind, writes
evidence/C17.json.   usage: run.py quick|thorough|--setup | run.py replay <file>"""
import json, os, re, subprocess, sys, time

HERE = os.path.dirname(os.path.abspath(__file__))
ROOT = os.path.dirname(HERE)
BUILD = os.path.join(ROOT, ".build", "cpp")
GEN = os.path.join(BUILD, "gen")

def fail(msg):
    sys.stderr.write("MACHINERY ERROR: %s\n" % msg)
    sys.exit(2)

def build():
    os.makedirs(GEN, exist_ok=True)
    env = dict(os.environ, CARGO_TARGET_DIR=os.path.join(BUILD, "target"), RESOLVO_GENERATED_INCLUDE_DIR=GEN, CARGO_NET_OFFLINE="true")
    r = subprocess.run(["cargo", "build", "--release", "--offline"], cwd=os.path.join(HERE, "rt"), env=env, stdout=subprocess.PIPE, stderr=subprocess.STDOUT, text=True)
    if r.returncode != 0:
        sys.stderr.write(r.stdout[-5000:])
        fail("cargo build of the C17 runtime failed")
    lib = os.path.join(BUILD, "target", "release", "librvcpp.a")
    common = ["clang++-14", "-std=c++17", "-g", "-gdwarf-4", "-fno-omit-frame-pointer", "-Wall", "-Wextra",
              "-I/repo/cpp/include", "-I" + GEN, os.path.join(HERE, "driver.cpp"), lib, "-lpthread", "-ldl", "-lm"]
    out = {}
    for name, flags in (("driver_asan", ["-O1", "-fsanitize=address,undefined", "-fno-sanitize-recover=undefined"]), ("driver_plain", ["-O1"])):
        exe = os.path.join(BUILD, name)
        r = subprocess.run(common + flags + ["-o", exe], stdout=subprocess.PIPE, stderr=subprocess.STDOUT, text=True)
        if r.returncode != 0:
            sys.stderr.write(r.stdout[-5000:])
            fail("compiling the C++ driver failed (%s)" % name)
        out[name] = exe
    return out

def run(exe, args, env_extra=None, prefix=None, timeout=None):
    env = dict(os.environ, VERIF_ROOT=ROOT, ASAN_OPTIONS="detect_leaks=1:abort_on_error=0:exitcode=66", UBSAN_OPTIONS="print_stacktrace=1:halt_on_error=1:exitcode=67")
    env.update(env_extra or {})
    cmd = (prefix or []) + [exe] + args
    try:
        r = subprocess.run(cmd, env=env, stdout=subprocess.PIPE, stderr=subprocess.PIPE, text=True, timeout=timeout)
    except subprocess.TimeoutExpired:
        fail("%s timed out" % " ".join(cmd))
    return r

def main():
    a = sys.argv[1:]
    if not a:
        print(__doc__)
        return 2
    t0 = time.time()
    exes = build()
    if a[0] == "--setup":
        return 0
    if a[0] == "replay":
        r = run(exes["driver_asan"], ["replay", a[1]])
        sys.stdout.write(r.stdout)
        if r.returncode == 1:
            print("VIOLATION property=C17 replay=%s" % a[1])
        return r.returncode
    tier = a[0]
    r = run(exes["driver_asan"], [tier], timeout=900 if tier == "quick" else 6 * 3600)
    sys.stderr.write("".join(l + "\n" for l in r.stderr.splitlines() if l.startswith("[C17]")))
    violations = 0
    machinery = []
    summary = None
    for line in r.stdout.splitlines():
        if line.startswith("SUMMARY "):
            summary = json.loads(line[8:])
        elif line.startswith("VIOLATION") or line.startswith("  what:"):
            print(line)
    sanitizer = [l for l in r.stderr.splitlines() if "ERROR: AddressSanitizer" in l or "runtime error:" in l or "ERROR: LeakSanitizer" in l or "LAYOUT-MISMATCH" in l]
    replay_dir = os.path.join(ROOT, "replays", "C17")
    if r.returncode in (66, 67) or sanitizer or r.returncode < 0:
        os.makedirs(replay_dir, exist_ok=True)
        path = os.path.join(replay_dir, "sanitizer-%s.log" % tier)
        open(path, "w").write(r.stderr[-200000:])
        print("VIOLATION property=C17 replay=%s" % path)
        print("  what: sanitizer / allocator report or crash (exit %d): %s [memory-safety]" % (r.returncode, (sanitizer[:1] or ["crash"])[0][:200]))
        violations += 1
    if summary is None and not violations:
        sys.stderr.write(r.stderr[-3000:])
        fail("the C++ driver produced no summary (exit %d)" % r.returncode)
    summary = summary or {"violations": 0, "counters": {}, "samples": []}
    violations += summary["violations"]
    # reduced pass under valgrind memcheck (covers reads inside the uninstrumented Rust code)
    vg = run(exes["driver_plain"], [tier], env_extra={"C17_STRIDE_MULT": "16" if tier == "quick" else "64"},
             prefix=["valgrind", "--error-exitcode=68", "--quiet", "--leak-check=no"], timeout=900 if tier == "quick" else 6 * 3600)
    vg_summary = None
    for line in vg.stdout.splitlines():
        if line.startswith("SUMMARY "):
            vg_summary = json.loads(line[8:])
    if vg.returncode == 68 or "Invalid read" in vg.stderr or "Invalid write" in vg.stderr or "uninitialised" in vg.stderr:
        os.makedirs(replay_dir, exist_ok=True)
        path = os.path.join(replay_dir, "valgrind-%s.log" % tier)
        open(path, "w").write(vg.stderr[-200000:])
        print("VIOLATION property=C17 replay=%s" % path)
        print("  what: valgrind memcheck reports errors [memory-safety-valgrind]")
        violations += 1
    elif vg_summary is None:
        machinery.append("valgrind pass produced no summary (exit %d): %s" % (vg.returncode, vg.stderr[-500:]))
    c = summary["counters"]
    universes = c.get("universes", 0)
    programs = c.get("container_programs_SolvableId", 0) + c.get("container_programs_String", 0) + c.get("container_programs_StdString", 0) + c.get("string_programs", 0)
    ev = {
        "property_id": "C17",
        "tier": tier,
        "seed": int(os.environ.get("VERIF_SEED", "0") or 0),
        "level": "model_checking",
        "coverage": {
            "states": universes + programs,
            "transitions": c.get("solves_through_cpp_bridge", 0) + programs,
            "traces_validated_against_impl": c.get("solves_through_cpp_bridge", 0) + programs,
            "evaluations": c.get("solves_through_cpp_bridge", 0) + programs,
            "distinct_nontrivial": universes + programs,
            "rule": "every universe of F3 (<=1/2 decorations), a slice of F1 and F5 (soft) that the C++ interface can express is flattened to a table and solved (a) through resolvo::solve with a table-driven C++ DependencyProvider under 6 ways of building the returned vectors (exact, grown, shared, detached, cleared+refilled, reused scratch vector with capacity > size; with and without a pre-filled result vector) and (b) through the Rust API; solution vector and error text must be identical, no Rust-side allocation may survive a solve, every block must be freed with the layout it was allocated with (checking global allocator), ASan/UBSan/LSan silent; plus every sequence of container operations of the stated depth on Vector<SolvableId>/Vector<String>/Vector<std::string> with 2 handles against std::vector, String operations against std::string, and sizeof/alignof/offsetof of all boundary structs compared between Rust and C++; a reduced pass of the same program runs under valgrind memcheck; non-trivial = every distinct universe / container program",
            "samples": summary.get("samples", [])[:4] or ["(no sample)"],
            "exhaustive": tier == "thorough",
            "counters": c,
            "valgrind_pass": vg_summary["counters"] if vg_summary else None,
            "explanation": "states = universes + container programs; transitions = executions (solves through the bridge + programs)",
        },
        "assumptions": ["the C++ interface cannot express Unknown dependencies or missing packages; hints are always an explicit list (as the bridge does)",
                        "memory safety is judged by ASan/UBSan/LSan on the C++ side, a layout-checking allocator on the Rust side and valgrind on a reduced pass",
                        "observation: Vector<T>::operator Slice<const T>() const of resolvo_vector.h does not compile when instantiated; it is not used"],
        "wall_s": time.time() - t0,
        "violations": violations,
        "machinery_errors": machinery,
    }
    os.makedirs(os.path.join(ROOT, "evidence"), exist_ok=True)
    json.dump(ev, open(os.path.join(ROOT, "evidence", "C17.json"), "w"), indent=1)
    for m in machinery:
        sys.stderr.write("MACHINERY ERROR: %s\n" % m)
    if violations:
        return 1
    return 2 if machinery else 0

if __name__ == "__main__":
    sys.exit(main())
