// C17: differential driver. One process, C++ side built with ASan/UBSan, Rust side with a
// layout-checking global allocator.
//   (a) every universe of the enumerated families is solved through the C++ DependencyProvider
//       bridge (resolvo::solve) under several "vector return modes" and through the Rust API
//       (rv_ref_solve); solution vector / error text must be identical.
//   (b) exhaustive operation sequences on resolvo::Vector<T> / resolvo::String against
//       std::vector / std::string, incl. handing vectors to Rust (solve result) and back.
//   (c) struct layouts as seen by both sides.
#include <resolvo.h>

#include <algorithm>
#include <cstdio>
#include <cstring>
#include <fstream>
#include <functional>
#include <map>
#include <memory>
#include <optional>
#include <set>
#include <sstream>
#include <string>
#include <type_traits>
#include <vector>

extern "C" {
uint64_t rv_family_len(uint32_t fam, uint32_t tier);
size_t rv_case_table(uint32_t fam, uint32_t tier, uint64_t idx, uint32_t *out, size_t cap);
size_t rv_ref_solve(const uint32_t *table, size_t n, char *out, size_t cap);
size_t rv_describe(const uint32_t *table, size_t n, char *out, size_t cap);
size_t rv_layout(uint64_t *out, size_t cap);
uint64_t rv_track(uint32_t on);
uint64_t rv_outstanding();
uint64_t rv_mismatches();
}

using resolvo::NameId;
using resolvo::SolvableId;
using resolvo::StringId;
using resolvo::VersionSetId;
using resolvo::VersionSetUnionId;

// ---------------------------------------------------------------------------------------------
// table -> universe
// ---------------------------------------------------------------------------------------------
struct TName {
    std::string label;
    bool missing;
    std::optional<uint32_t> favored, locked;
    std::vector<uint32_t> cands;
    std::vector<std::pair<uint32_t, uint32_t>> excluded;
    std::vector<uint32_t> hint;
};
struct TReq {
    uint32_t kind, id;
};
struct TSolv {
    uint32_t name, version, rank;
    std::vector<TReq> reqs;
    std::vector<uint32_t> cons;
};
struct TVset {
    uint32_t name;
    std::vector<uint32_t> members;
    std::string label;
};
struct Table {
    std::vector<TName> names;
    std::vector<TSolv> solvs;
    std::vector<TVset> vsets;
    std::vector<std::vector<uint32_t>> unions;
    std::vector<std::string> strings;
    std::vector<TReq> root_reqs;
    std::vector<uint32_t> root_cons, soft;
};

struct Reader {
    const uint32_t *p;
    size_t i = 0;
    uint32_t u() { return p[i++]; }
    std::string s() {
        uint32_t n = u();
        std::string r;
        for (uint32_t k = 0; k < n; ++k) r.push_back(static_cast<char>(u()));
        return r;
    }
    std::vector<uint32_t> list() {
        uint32_t n = u();
        std::vector<uint32_t> r;
        for (uint32_t k = 0; k < n; ++k) r.push_back(u());
        return r;
    }
    TReq req() {
        uint32_t k = u();
        uint32_t id = u();
        return TReq{k, id};
    }
};

static Table parse(const uint32_t *t) {
    Reader r{t};
    Table T;
    uint32_t nn = r.u(), ns = r.u(), nv = r.u(), nu = r.u(), nstr = r.u(), nr = r.u(), nc = r.u(),
             nsoft = r.u();
    for (uint32_t i = 0; i < nn; ++i) {
        TName n;
        n.label = r.s();
        n.missing = r.u() != 0;
        uint32_t f = r.u(), l = r.u();
        if (f) n.favored = f - 1;
        if (l) n.locked = l - 1;
        n.cands = r.list();
        uint32_t ne = r.u();
        for (uint32_t k = 0; k < ne; ++k) {
            uint32_t a = r.u(), b = r.u();
            n.excluded.push_back({a, b});
        }
        n.hint = r.list();
        T.names.push_back(n);
    }
    for (uint32_t i = 0; i < ns; ++i) {
        TSolv s;
        s.name = r.u();
        s.version = r.u();
        s.rank = r.u();
        uint32_t nreq = r.u();
        for (uint32_t k = 0; k < nreq; ++k) s.reqs.push_back(r.req());
        s.cons = r.list();
        T.solvs.push_back(s);
    }
    for (uint32_t i = 0; i < nv; ++i) {
        TVset v;
        v.name = r.u();
        v.members = r.list();
        v.label = r.s();
        T.vsets.push_back(v);
    }
    for (uint32_t i = 0; i < nu; ++i) T.unions.push_back(r.list());
    for (uint32_t i = 0; i < nstr; ++i) T.strings.push_back(r.s());
    for (uint32_t i = 0; i < nr; ++i) T.root_reqs.push_back(r.req());
    for (uint32_t i = 0; i < nc; ++i) T.root_cons.push_back(r.u());
    for (uint32_t i = 0; i < nsoft; ++i) T.soft.push_back(r.u());
    return T;
}

// ---------------------------------------------------------------------------------------------
// the C++ provider. `mode` selects how returned vectors are built:
//   0 initializer-style exact capacity, 1 push_back growth (capacity > size), 2 a copy of a
//   cached vector (shared, refcount 2: Rust must clone the elements), 3 copy then detach by
//   mutable access, 4 built, cleared and refilled, 5 reused scratch vector (capacity > size)
// ---------------------------------------------------------------------------------------------
struct TableProvider : public resolvo::DependencyProvider {
    const Table &T;
    int mode;
    std::vector<resolvo::Vector<VersionSetId>> union_storage;
    std::vector<SolvableId> favored_storage, locked_storage;
    // keeps shared copies alive in mode 2
    std::vector<resolvo::Vector<SolvableId>> keep_ids;
    std::vector<resolvo::Vector<resolvo::Requirement>> keep_reqs;
    std::vector<resolvo::Vector<VersionSetId>> keep_vs;
    uint64_t calls = 0;

    TableProvider(const Table &t, int mode) : T(t), mode(mode) {
        for (auto &u : T.unions) {
            resolvo::Vector<VersionSetId> v;
            for (auto x : u) v.push_back(VersionSetId{x});
            union_storage.push_back(v);
        }
        favored_storage.resize(T.names.size());
        locked_storage.resize(T.names.size());
    }

    template <typename E, typename F>
    resolvo::Vector<E> build(const std::vector<uint32_t> &src, F conv,
                             std::vector<resolvo::Vector<E>> &keep) {
        switch (mode) {
            case 0: {
                std::vector<E> tmp;
                for (auto x : src) tmp.push_back(conv(x));
                return resolvo::Vector<E>(tmp.begin(), tmp.end());
            }
            case 1: {
                resolvo::Vector<E> v;
                for (auto x : src) v.push_back(conv(x));
                return v;
            }
            case 2: {
                resolvo::Vector<E> v;
                for (auto x : src) v.push_back(conv(x));
                keep.push_back(v);
                return v;
            }
            case 3: {
                resolvo::Vector<E> a;
                for (auto x : src) a.push_back(conv(x));
                resolvo::Vector<E> b(a);
                if (!b.empty()) {
                    E first = b[0];  // mutable access detaches
                    b[0] = first;
                }
                return b;
            }
            case 4: {
                resolvo::Vector<E> v;
                for (auto x : src) v.push_back(conv(x));
                v.clear();
                for (auto x : src) v.push_back(conv(x));
                return v;
            }
            default: {
                // a reused scratch vector: filled with more elements than needed, cleared, refilled:
                // capacity > size when it reaches Rust (both sides must agree which header word is which)
                resolvo::Vector<E> v;
                for (auto x : src) v.push_back(conv(x));
                for (auto x : src) v.push_back(conv(x));
                if (!src.empty()) v.push_back(conv(src[0]));
                v.clear();
                for (auto x : src) v.push_back(conv(x));
                return v;
            }
        }
    }

    resolvo::String display_solvable(SolvableId s) override {
        ++calls;
        return resolvo::String(std::to_string(T.solvs[s.id].version));
    }
    resolvo::String display_merged_solvables(resolvo::Slice<SolvableId> solvables) override {
        ++calls;
        if (solvables.empty()) return resolvo::String();
        // like the Rust reference provider of the harness: the order in which the solver hands the
        // merged solvables over is kept
        std::vector<std::string> vs;
        for (const auto &s : solvables) vs.push_back(std::to_string(T.solvs[s.id].version));
        std::string out = T.names[T.solvs[solvables[0].id].name].label + " ";
        for (size_t i = 0; i < vs.size(); ++i) {
            if (i) out += " | ";
            out += vs[i];
        }
        return resolvo::String(out);
    }
    resolvo::String display_name(NameId n) override { return resolvo::String(T.names[n.id].label); }
    resolvo::String display_version_set(VersionSetId v) override {
        return resolvo::String(T.vsets[v.id].label);
    }
    resolvo::String display_string(StringId s) override {
        return resolvo::String(T.strings[s.id]);
    }
    NameId version_set_name(VersionSetId v) override { return NameId{T.vsets[v.id].name}; }
    NameId solvable_name(SolvableId s) override { return NameId{T.solvs[s.id].name}; }
    resolvo::Slice<VersionSetId> version_sets_in_union(VersionSetUnionId u) override {
        const auto &v = union_storage[u.id];
        return resolvo::Slice<VersionSetId>(v.cbegin(), v.size());
    }
    resolvo::Candidates get_candidates(NameId name) override {
        ++calls;
        const TName &n = T.names[name.id];
        resolvo::Candidates c;
        auto sid = [](uint32_t x) { return SolvableId{x}; };
        c.candidates = build<SolvableId>(n.cands, sid, keep_ids);
        c.hint_dependencies_available = build<SolvableId>(n.hint, sid, keep_ids);
        c.favored = nullptr;
        c.locked = nullptr;
        if (n.favored) {
            favored_storage[name.id] = SolvableId{*n.favored};
            c.favored = &favored_storage[name.id];
        }
        if (n.locked) {
            locked_storage[name.id] = SolvableId{*n.locked};
            c.locked = &locked_storage[name.id];
        }
        for (auto &e : n.excluded) {
            c.excluded.push_back(resolvo::ExcludedSolvable{SolvableId{e.first}, StringId{e.second}});
        }
        if (mode <= 1) {
            // "the favored / locked solvable is that element of the list I return": the pointers refer
            // into the storage of the returned candidates vector, which stays alive as long as the
            // returned object does
            for (size_t k = 0; k < c.candidates.size(); ++k) {
                const SolvableId *p = c.candidates.cbegin() + k;
                if (n.favored && p->id == *n.favored) c.favored = p;
                if (n.locked && p->id == *n.locked) c.locked = p;
            }
        }
        return c;
    }
    void sort_candidates(resolvo::Slice<SolvableId> solvables) override {
        ++calls;
        std::sort(solvables.begin(), solvables.end(), [&](SolvableId a, SolvableId b) {
            return T.solvs[a.id].rank < T.solvs[b.id].rank;
        });
    }
    resolvo::Vector<SolvableId> filter_candidates(resolvo::Slice<SolvableId> candidates,
                                                  VersionSetId vs, bool inverse) override {
        ++calls;
        const auto &m = T.vsets[vs.id].members;
        std::vector<uint32_t> out;
        for (const auto &c : candidates) {
            bool in = std::find(m.begin(), m.end(), c.id) != m.end();
            if (in != inverse) out.push_back(c.id);
        }
        return build<SolvableId>(out, [](uint32_t x) { return SolvableId{x}; }, keep_ids);
    }
    resolvo::Dependencies get_dependencies(SolvableId s) override {
        ++calls;
        const TSolv &sv = T.solvs[s.id];
        resolvo::Dependencies d;
        std::vector<uint32_t> idx;
        for (uint32_t i = 0; i < sv.reqs.size(); ++i) idx.push_back(i);
        d.requirements = build<resolvo::Requirement>(
            idx,
            [&](uint32_t i) {
                const TReq &r = sv.reqs[i];
                return r.kind == 0 ? resolvo::requirement_single(VersionSetId{r.id})
                                   : resolvo::requirement_union(VersionSetUnionId{r.id});
            },
            keep_reqs);
        d.constrains =
            build<VersionSetId>(sv.cons, [](uint32_t x) { return VersionSetId{x}; }, keep_vs);
        return d;
    }
};

// A provider together with the table it reads. Providers are built in one of two static slots, in
// turn, and destroyed when the solve returns: consecutive solves therefore see provider objects at
// different addresses, and the slot of the previous solve holds a destroyed (under ASan: poisoned)
// object - a bridge that remembered the first provider it ever saw would be caught at once.
struct OwnedProvider {
    Table table;
    TableProvider provider;
    OwnedProvider(const Table &t, int mode) : table(t), provider(table, mode) {}
};
#if defined(__has_feature)
#if __has_feature(address_sanitizer)
#include <sanitizer/asan_interface.h>
#define RV_POISON(p, n) ASAN_POISON_MEMORY_REGION(p, n)
#define RV_UNPOISON(p, n) ASAN_UNPOISON_MEMORY_REGION(p, n)
#endif
#endif
#ifndef RV_POISON
#define RV_POISON(p, n) ((void)0)
#define RV_UNPOISON(p, n) ((void)0)
#endif
alignas(16) static char g_provider_slots[2][sizeof(OwnedProvider)];
static unsigned g_provider_turn = 0;

static std::string solve_cpp(const Table &T, int mode, bool prefilled_result) {
    char *slot = g_provider_slots[g_provider_turn++ % 2];
    RV_UNPOISON(slot, sizeof(OwnedProvider));
    OwnedProvider *owned = new (slot) OwnedProvider(T, mode);
    struct Destroy {
        OwnedProvider *o;
        char *slot;
        ~Destroy() {
            o->~OwnedProvider();
            RV_POISON(slot, sizeof(OwnedProvider));
        }
    } destroy{owned, slot};
    TableProvider &provider = owned->provider;
    resolvo::Vector<resolvo::Requirement> reqs;
    for (auto &r : T.root_reqs)
        reqs.push_back(r.kind == 0 ? resolvo::requirement_single(VersionSetId{r.id})
                                   : resolvo::requirement_union(VersionSetUnionId{r.id}));
    resolvo::Vector<VersionSetId> cons;
    for (auto c : T.root_cons) cons.push_back(VersionSetId{c});
    resolvo::Vector<SolvableId> soft;
    for (auto s : T.soft) soft.push_back(SolvableId{s});
    resolvo::Problem problem = {reqs, cons, soft};
    resolvo::Vector<SolvableId> result;
    if (prefilled_result) {
        // Rust overwrites (and therefore frees) a vector that C++ allocated
        result.push_back(SolvableId{4242});
        result.push_back(SolvableId{4243});
    }
    resolvo::String error = resolvo::solve(provider, problem, result);
    std::string out;
    if (std::string_view(error).empty()) {
        out = "OK:";
        bool first = true;
        for (const auto &s : result) {
            if (!first) out += ",";
            first = false;
            out += std::to_string(s.id);
        }
        // C++ mutates a vector that Rust allocated (detach + free of the Rust allocation)
        resolvo::Vector<SolvableId> copy = result;
        copy.push_back(SolvableId{7});
        result.push_back(SolvableId{8});
        if (copy.size() != result.size()) out += "!size";
    } else {
        out = "ERR:" + std::string(std::string_view(error));
    }
    return out;
}

// ---------------------------------------------------------------------------------------------
// output helpers
// ---------------------------------------------------------------------------------------------
static std::string g_root = "/verif";
static uint64_t g_violations = 0;
static std::vector<std::string> g_violation_lines;
static std::map<std::string, uint64_t> g_counters;
static std::vector<std::string> g_samples;

static std::string json_escape(const std::string &s) {
    std::string o;
    for (unsigned char c : s) {
        if (c == '"' || c == '\\') {
            o.push_back('\\');
            o.push_back(c);
        } else if (c == '\n') {
            o += "\\n";
        } else if (c < 0x20) {
            char b[8];
            snprintf(b, sizeof b, "\\u%04x", c);
            o += b;
        } else {
            o.push_back(c);
        }
    }
    return o;
}

static void violation(const std::string &sig, const std::string &what, const std::string &replay_json) {
    g_counters["violations[" + sig + "]"]++;
    if (g_counters["violations[" + sig + "]"] > 3) return;
    ++g_violations;
    std::hash<std::string> h;
    char name[64];
    snprintf(name, sizeof name, "%016zx.json", h(sig + replay_json));
    std::string dir = g_root + "/replays/C17";
    std::string cmd = "mkdir -p " + dir;
    if (system(cmd.c_str()) != 0) {
    }
    std::string path = dir + "/" + name;
    std::ofstream f(path);
    f << "{\"property\":\"C17\",\"signature\":\"" << json_escape(sig) << "\",\"what\":\""
      << json_escape(what) << "\",\"replay\":" << replay_json << "}\n";
    f.close();
    printf("VIOLATION property=C17 replay=%s\n  what: %s [%s]\n", path.c_str(), what.c_str(),
           sig.c_str());
    fflush(stdout);
}

static std::string table_json(const std::vector<uint32_t> &t) {
    std::string s = "[";
    for (size_t i = 0; i < t.size(); ++i) {
        if (i) s += ",";
        s += std::to_string(t[i]);
    }
    return s + "]";
}

// ---------------------------------------------------------------------------------------------
// (a) differential solve
// ---------------------------------------------------------------------------------------------
static bool check_table(const std::vector<uint32_t> &tab, bool all_modes) {
    static std::vector<char> buf(1 << 20);
    size_t n = rv_ref_solve(tab.data(), tab.size(), buf.data(), buf.size());
    std::string ref(buf.data(), std::min(n, buf.size() - 1));
    Table T = parse(tab.data());
    bool ok = true;
    int modes = all_modes ? 6 : 2;
    for (int mi = 0; mi < modes; ++mi) {
        // the reduced mode set is {exact, scratch-reuse}
        int mode = all_modes ? mi : (mi == 0 ? 0 : 5);
        for (int pre = 0; pre < 2; ++pre) {
            if (pre == 1 && mode > 1) continue;
            uint64_t before = rv_outstanding();
            std::string got = solve_cpp(T, mode, pre == 1);
            uint64_t after = rv_outstanding();
            g_counters["solves_through_cpp_bridge"]++;
            if (got != ref) {
                ok = false;
                violation(got.substr(0, 2) == ref.substr(0, 2) ? (got[0] == 'O' ? "solution-differs" : "error-text-differs")
                                                                : "verdict-differs",
                          "C++ bridge (vector mode " + std::to_string(mode) + ") returned " + got.substr(0, 300) +
                              " but the Rust API returns " + ref.substr(0, 300),
                          "{\"kind\":\"c17-solve\",\"mode\":" + std::to_string(mode) + ",\"table\":" + table_json(tab) + "}");
            }
            if (after != before) {
                ok = false;
                violation("leak-across-ffi",
                          "Rust-side allocations alive after a complete solve: " + std::to_string(after - before) +
                              " blocks (vector mode " + std::to_string(mode) + ")",
                          "{\"kind\":\"c17-solve\",\"mode\":" + std::to_string(mode) + ",\"table\":" + table_json(tab) + "}");
            }
        }
    }
    if (ref[0] == 'E') g_counters["error_texts_compared"]++;
    else g_counters["solutions_compared"]++;
    if (g_samples.size() < 4) {
        size_t m = rv_describe(tab.data(), tab.size(), buf.data(), buf.size());
        g_samples.push_back("{\"universe\":" + std::string(buf.data(), std::min(m, buf.size() - 1)) + ",\"result\":\"" +
                            json_escape(ref.substr(0, 200)) + "\"}");
    }
    return ok;
}

static void run_differential(uint32_t tier, uint64_t seed) {
    std::vector<uint32_t> tab(1 << 16);
    for (uint32_t fam = 0; fam < 3; ++fam) {
        uint64_t len = rv_family_len(fam, tier);
        uint64_t stride = 1;
        if (tier == 0) stride = fam == 1 ? 8 : (fam == 2 ? 4 : 1);
        if (const char *m = getenv("C17_STRIDE_MULT")) stride *= strtoull(m, nullptr, 10);
        uint64_t done = 0;
        for (uint64_t idx = (stride > 1 ? seed % stride : 0); idx < len; idx += stride) {
            size_t n = rv_case_table(fam, tier, idx, tab.data(), tab.size());
            if (n == 0) {
                g_counters["cases_not_expressible_in_cpp"]++;
                continue;
            }
            if (n > tab.size()) {
                tab.resize(n);
                n = rv_case_table(fam, tier, idx, tab.data(), tab.size());
            }
            std::vector<uint32_t> t(tab.begin(), tab.begin() + n);
            check_table(t, tier != 0 || (idx % 4 == 0));
            ++done;
        }
        g_counters["universes"] += done;
        fprintf(stderr, "[C17] differential family %u: %llu universes\n", fam, (unsigned long long)done);
    }
}

// ---------------------------------------------------------------------------------------------
// (b) container programs
// ---------------------------------------------------------------------------------------------
template <typename T>
struct Elem;
template <>
struct Elem<SolvableId> {
    static SolvableId make(uint32_t k) { return SolvableId{k}; }
    static uint32_t key(const SolvableId &s) { return s.id; }
};
template <>
struct Elem<resolvo::String> {
    static resolvo::String make(uint32_t k) { return resolvo::String("s" + std::to_string(k)); }
    static uint32_t key(const resolvo::String &s) {
        std::string_view v = s;
        return static_cast<uint32_t>(std::stoul(std::string(v.substr(1))));
    }
};

template <>
struct Elem<std::string> {
    // an element type with a real move constructor: a moved-from element is observably different
    static std::string make(uint32_t k) { return "element-with-a-long-enough-name-to-live-on-the-heap-" + std::to_string(k); }
    static uint32_t key(const std::string &s) {
        size_t p = s.rfind('-');
        if (p == std::string::npos) return 0xffffffffu;
        return static_cast<uint32_t>(strtoul(s.c_str() + p + 1, nullptr, 10));
    }
};

struct Op {
    int kind, a, b;
};

// ops: 0 default, 1 from-list{1,2,3}, 2 copy-construct a <- b, 3 copy-assign a = b, 4 move-assign a = move(b),
//      5 push_back, 6 mutable index write, 7 clear, 8 destroy, 9 hand to Rust and back (solve result; ids only),
//      10 self copy-assign, 11 read through Slice, 12 write through a mutable Slice,
//      13 push_back of an element of the same vector (the argument aliases the storage that push_back
//         may have to replace; std::vector guarantees this works), 14 the same through the rvalue
//         overload (trivially copyable element types only, where a moved-from element keeps its value),
//      15 / 16 mutable begin()/end() pair taken in either order, then a write through it
template <typename T>
static bool run_program(const std::vector<Op> &prog, std::string &why) {
    const int H = 2;
    std::optional<resolvo::Vector<T>> h[H];
    std::optional<std::vector<uint32_t>> m[H];
    uint32_t fresh = 100;
    auto same = [&](int i) -> bool {
        if (h[i].has_value() != m[i].has_value()) return false;
        if (!h[i]) return true;
        const resolvo::Vector<T> &v = *h[i];
        if (v.size() != m[i]->size() || v.empty() != m[i]->empty()) return false;
        if (v.capacity() < v.size()) return false;
        for (size_t k = 0; k < v.size(); ++k)
            if (Elem<T>::key(v.at(k)) != (*m[i])[k]) return false;
        return true;
    };
    for (size_t step = 0; step < prog.size(); ++step) {
        const Op &op = prog[step];
        int a = op.a, b = op.b;
        switch (op.kind) {
            case 0:
                h[a].emplace();
                m[a].emplace();
                break;
            case 1:
                h[a].emplace(resolvo::Vector<T>{Elem<T>::make(1), Elem<T>::make(2), Elem<T>::make(3)});
                m[a] = std::vector<uint32_t>{1, 2, 3};
                break;
            case 2:
                if (!h[b] || a == b) continue;
                h[a].emplace(*h[b]);
                m[a] = *m[b];
                break;
            case 3:
                if (!h[a] || !h[b]) continue;
                *h[a] = *h[b];
                *m[a] = *m[b];
                break;
            case 4:
                if (!h[a] || !h[b] || a == b) continue;
                *h[a] = std::move(*h[b]);
                std::swap(*m[a], *m[b]);  // move-assignment is implemented as a swap
                break;
            case 5:
                if (!h[a]) continue;
                h[a]->push_back(Elem<T>::make(fresh));
                m[a]->push_back(fresh);
                ++fresh;
                break;
            case 6:
                if (!h[a] || h[a]->empty()) continue;
                (*h[a])[0] = Elem<T>::make(fresh);
                (*m[a])[0] = fresh;
                ++fresh;
                break;
            case 7:
                if (!h[a]) continue;
                h[a]->clear();
                m[a]->clear();
                break;
            case 8:
                h[a].reset();
                m[a].reset();
                break;
            case 10:
                if (!h[a]) continue;
                {
                    resolvo::Vector<T> &r = *h[a];
                    resolvo::Vector<T> &r2 = r;
                    r = r2;
                }
                break;
            case 11:
                if (!h[a]) continue;
                {
                    // note: `operator Slice<const T>() const` of resolvo_vector.h does not compile when
                    // instantiated (class template argument deduction yields Slice<T>); the mutable
                    // conversion is used instead, which detaches a shared vector
                    resolvo::Slice<T> s = *h[a];
                    size_t k = 0;
                    for (const auto &e : s) {
                        if (Elem<T>::key(e) != (*m[a])[k]) {
                            why = "slice view differs";
                            return false;
                        }
                        ++k;
                    }
                    if (k != m[a]->size()) {
                        why = "slice length differs";
                        return false;
                    }
                }
                break;
            case 12:
                if (!h[a] || h[a]->empty()) continue;
                {
                    // a mutable Slice taken from a (possibly shared) vector must detach it first:
                    // writing through the slice may only change this handle
                    resolvo::Slice<T> s = *h[a];
                    s[0] = Elem<T>::make(fresh);
                    (*m[a])[0] = fresh;
                    ++fresh;
                }
                break;
            case 13:
                if (!h[a] || h[a]->empty()) continue;
                {
                    const resolvo::Vector<T> &cv = *h[a];
                    const T &own = cv.at(cv.size() - 1);
                    h[a]->push_back(own);
                    m[a]->push_back(m[a]->back());
                }
                break;
            case 14:
                if (!h[a] || h[a]->empty()) continue;
                if constexpr (std::is_trivially_copyable_v<T>) {
                    resolvo::Vector<T> &v = *h[a];
                    v.push_back(std::move(v[v.size() - 1]));
                    m[a]->push_back(m[a]->back());
                }
                break;
            case 15:
            case 16:
                if (!h[a]) continue;
                {
                    // the mutable iterator pair of a (possibly shared) vector, end() taken before begin()
                    // (15: what `f(v.begin(), v.end())` does when arguments are evaluated right to left) or
                    // after it (16): both must point into the same, unshared storage; a write through them
                    // may only change this handle
                    resolvo::Vector<T> &v = *h[a];
                    T *b, *e;
                    if (op.kind == 15) {
                        e = v.end();
                        b = v.begin();
                    } else {
                        b = v.begin();
                        e = v.end();
                    }
                    if (static_cast<size_t>(e - b) != m[a]->size() || b != v.cbegin() || e != v.cend()) {
                        why = "begin()/end() do not delimit the elements of the vector";
                        return false;
                    }
                    if (b != e) {
                        T *w = op.kind == 15 ? e - 1 : b;
                        *w = Elem<T>::make(fresh);
                        (*m[a])[op.kind == 15 ? m[a]->size() - 1 : 0] = fresh;
                        ++fresh;
                    }
                }
                break;
            default:
                break;
        }
        for (int i = 0; i < H; ++i) {
            if (!same(i)) {
                why = "after step " + std::to_string(step) + " (op " + std::to_string(op.kind) + " " +
                      std::to_string(a) + " " + std::to_string(b) + ") handle " + std::to_string(i) +
                      " differs from the reference";
                return false;
            }
        }
    }
    return true;
}

template <typename T>
static void run_containers(const char *tname, int depth) {
    std::vector<Op> alphabet;
    for (int a = 0; a < 2; ++a) {
        alphabet.push_back({0, a, 0});
        alphabet.push_back({1, a, 0});
        alphabet.push_back({2, a, 1 - a});
        alphabet.push_back({3, a, 1 - a});
        alphabet.push_back({4, a, 1 - a});
        alphabet.push_back({5, a, 0});
        alphabet.push_back({6, a, 0});
        alphabet.push_back({7, a, 0});
        alphabet.push_back({8, a, 0});
        alphabet.push_back({10, a, 0});
        alphabet.push_back({11, a, 0});
        alphabet.push_back({12, a, 0});
        alphabet.push_back({13, a, 0});
        if (std::is_trivially_copyable_v<T>) alphabet.push_back({14, a, 0});
        alphabet.push_back({15, a, 0});
        alphabet.push_back({16, a, 0});
    }
    const size_t A = alphabet.size();
    uint64_t total = 1;
    for (int d = 0; d < depth; ++d) total *= A;
    uint64_t programs = 0;
    for (uint64_t code = 0; code < total; ++code) {
        std::vector<Op> prog;
        uint64_t x = code;
        for (int d = 0; d < depth; ++d) {
            prog.push_back(alphabet[x % A]);
            x /= A;
        }
        // the first operation must create something, otherwise the program is a shorter one
        if (prog[0].kind > 1) continue;
        uint64_t before = rv_outstanding();
        std::string why;
        bool ok = run_program<T>(prog, why);
        uint64_t after = rv_outstanding();
        ++programs;
        std::string pj = "[";
        for (size_t i = 0; i < prog.size(); ++i) {
            if (i) pj += ",";
            pj += "[" + std::to_string(prog[i].kind) + "," + std::to_string(prog[i].a) + "," + std::to_string(prog[i].b) + "]";
        }
        pj += "]";
        if (!ok) {
            violation(std::string("container-") + tname, std::string("Vector<") + tname + "> program: " + why,
                      "{\"kind\":\"c17-container\",\"type\":\"" + std::string(tname) + "\",\"program\":" + pj + "}");
        }
        if (after != before) {
            violation(std::string("container-leak-") + tname,
                      std::string("Vector<") + tname + "> program leaves " + std::to_string(after - before) +
                          " Rust-side blocks alive after all handles are destroyed",
                      "{\"kind\":\"c17-container\",\"type\":\"" + std::string(tname) + "\",\"program\":" + pj + "}");
        }
    }
    g_counters[std::string("container_programs_") + tname] += programs;
    fprintf(stderr, "[C17] %llu container programs on Vector<%s> (depth %d)\n", (unsigned long long)programs, tname, depth);
}

static void run_strings() {
    // String: construct / copy / assign / move / compare / view, against std::string
    std::vector<std::string> values = {"", "a", "hello world", std::string(300, 'x'), "\xc3\xa9t\xc3\xa9"};
    uint64_t n = 0;
    for (auto &v1 : values)
        for (auto &v2 : values) {
            uint64_t before = rv_outstanding();
            {
                resolvo::String a(v1);
                resolvo::String b(v2.c_str());
                resolvo::String c(a);
                resolvo::String d;
                d = b;
                {
                    resolvo::String &d2 = d;
                    d = d2;
                }
                std::string_view av = a, dv = d;
                bool ok = std::string(av) == v1 && std::string(dv) == v2 && (a == c) && ((a == b) == (v1 == v2)) &&
                          ((a != b) == (v1 != v2)) && std::strlen(a.data()) == v1.size();
                c = std::string_view(v2);
                ok = ok && std::string(std::string_view(c)) == v2 && std::string(std::string_view(a)) == v1;
                resolvo::String e("tmp");
                e = std::move(c);
                ok = ok && std::string(std::string_view(e)) == v2;
                e = v1.c_str();
                ok = ok && std::string(std::string_view(e)) == v1;
                {
                    // assignments whose source is the (uniquely owned) target itself or a view into its
                    // own storage: std::string guarantees all of these
                    resolvo::String u(v1);
                    {
                        resolvo::String &u2 = u;
                        u = u2;
                    }
                    ok = ok && std::string(std::string_view(u)) == v1;
                    resolvo::String w(v2);
                    std::string_view tail = std::string_view(w);
                    // drop the first character (all of its UTF-8 bytes: the input must stay valid UTF-8)
                    size_t cut = tail.empty() ? 0 : 1;
                    while (cut < tail.size() && (static_cast<unsigned char>(tail[cut]) & 0xC0) == 0x80) ++cut;
                    tail.remove_prefix(cut);
                    w = tail;
                    ok = ok && std::string(std::string_view(w)) == v2.substr(cut);
                    resolvo::String x(v1);
                    x = x.data();
                    ok = ok && std::string(std::string_view(x)) == v1;
                    // a proper prefix of the string's own data (same data pointer, shorter length), and the
                    // empty prefix
                    resolvo::String y(v2);
                    std::string_view head = std::string_view(y).substr(0, cut);
                    y = head;
                    ok = ok && std::string(std::string_view(y)) == v2.substr(0, cut);
                    resolvo::String z(v2);
                    z = std::string_view(z).substr(0, 0);
                    ok = ok && std::string_view(z).empty();
                }
                {
                    // a default-constructed string_view has a null data pointer and length 0
                    resolvo::String from_null(std::string_view{});
                    resolvo::String assigned(v1);
                    assigned = std::string_view{};
                    ok = ok && std::string_view(from_null).empty() && std::string_view(assigned).empty() &&
                         std::strlen(from_null.data()) == 0;
                }
                resolvo::Vector<resolvo::String> vec{a, b};
                vec.push_back(e);
                resolvo::Vector<resolvo::String> vec2 = vec;
                vec2[0] = resolvo::String("changed");
                ok = ok && std::string(std::string_view(vec.at(0))) == v1 && vec.size() == 3 && vec2.size() == 3;
                ++n;
                if (!ok)
                    violation("string-ops", "String operations differ from std::string for (" + v1.substr(0, 20) + ", " + v2.substr(0, 20) + ")",
                              "{\"kind\":\"c17-string\"}");
            }
            if (rv_outstanding() != before)
                violation("string-leak", "String operations leave Rust-side blocks alive", "{\"kind\":\"c17-string\"}");
        }
    g_counters["string_programs"] += n;
}

// ---------------------------------------------------------------------------------------------
// (c) layouts
// ---------------------------------------------------------------------------------------------
static void run_layout() {
    uint64_t r[64];
    size_t n = rv_layout(r, 64);
    resolvo::Candidates c;
    resolvo::Dependencies d;
    auto base = reinterpret_cast<const char *>(&c);
    std::vector<uint64_t> mine = {
        sizeof(SolvableId),
        alignof(SolvableId),
        sizeof(VersionSetId),
        sizeof(NameId),
        sizeof(StringId),
        sizeof(VersionSetUnionId),
        sizeof(resolvo::Requirement),
        alignof(resolvo::Requirement),
        sizeof(resolvo::ExcludedSolvable),
        sizeof(resolvo::Dependencies),
        alignof(resolvo::Dependencies),
        sizeof(resolvo::Candidates),
        alignof(resolvo::Candidates),
        sizeof(resolvo::Problem),
        sizeof(resolvo::cbindgen_private::DependencyProvider),
        sizeof(resolvo::Vector<resolvo::Requirement>),
        alignof(resolvo::Vector<resolvo::Requirement>),
        static_cast<uint64_t>(reinterpret_cast<const char *>(&c.candidates) - base),
        static_cast<uint64_t>(reinterpret_cast<const char *>(&c.favored) - base),
        static_cast<uint64_t>(reinterpret_cast<const char *>(&c.locked) - base),
        static_cast<uint64_t>(reinterpret_cast<const char *>(&c.hint_dependencies_available) - base),
        static_cast<uint64_t>(reinterpret_cast<const char *>(&c.excluded) - base),
        static_cast<uint64_t>(reinterpret_cast<const char *>(&d.constrains) - reinterpret_cast<const char *>(&d)),
    };
    if (n != mine.size()) {
        violation("layout-count", "layout report length differs", "{\"kind\":\"c17-layout\"}");
        return;
    }
    for (size_t i = 0; i < n; ++i) {
        g_counters["layout_items_compared"]++;
        if (r[i] != mine[i])
            violation("layout-mismatch",
                      "layout item " + std::to_string(i) + ": Rust says " + std::to_string(r[i]) + ", C++ says " + std::to_string(mine[i]),
                      "{\"kind\":\"c17-layout\",\"item\":" + std::to_string(i) + "}");
    }
    static_assert(sizeof(resolvo::String) == sizeof(void *), "String must be a single pointer");
}

// ---------------------------------------------------------------------------------------------
int main(int argc, char **argv) {
    std::string mode = argc > 1 ? argv[1] : "quick";
    if (const char *r = getenv("VERIF_ROOT")) g_root = r;
    uint64_t seed = 0;
    if (const char *s = getenv("VERIF_SEED")) seed = strtoull(s, nullptr, 10);
    {
        // warm-up before allocation tracking starts: process-lifetime singletons of the Rust side
        // (hash seeds, thread locals) are created by the first solve and are not leaks
        std::vector<uint32_t> tab(1 << 16);
        size_t n = rv_case_table(0, 0, 0, tab.data(), tab.size());
        if (n > 0 && n <= tab.size()) {
            std::vector<uint32_t> t(tab.begin(), tab.begin() + n);
            std::vector<char> buf(1 << 16);
            rv_ref_solve(t.data(), t.size(), buf.data(), buf.size());
            Table T = parse(t.data());
            solve_cpp(T, 0, false);
        }
        g_counters.clear();
    }
    rv_track(1);
    if (mode == "replay" && argc > 2) {
        // replay of a differential case: the table is the JSON array after "table":
        std::ifstream f(argv[2]);
        std::stringstream ss;
        ss << f.rdbuf();
        std::string s = ss.str();
        size_t p = s.find("\"table\":[");
        if (p == std::string::npos) {
            printf("replay: nothing to replay for this kind\n");
            return 0;
        }
        std::vector<uint32_t> t;
        p += 9;
        while (p < s.size() && s[p] != ']') {
            t.push_back(static_cast<uint32_t>(strtoul(s.c_str() + p, nullptr, 10)));
            while (p < s.size() && s[p] != ',' && s[p] != ']') ++p;
            if (s[p] == ',') ++p;
        }
        bool ok = check_table(t, true);
        printf(ok ? "replay: no violation\n" : "replay: still fails\n");
        return ok ? 0 : 1;
    }
    uint32_t tier = mode == "thorough" ? 1 : 0;
    run_layout();
    run_strings();
    int shallow = getenv("C17_STRIDE_MULT") ? 1 : 0;
    run_containers<SolvableId>("SolvableId", (tier ? 5 : 4) - shallow);
    run_containers<resolvo::String>("String", tier ? 4 : 3);
    run_containers<std::string>("StdString", tier ? 4 : 3);
    run_differential(tier, seed);
    if (rv_mismatches() != 0)
        violation("layout-mismatch-on-free", std::to_string(rv_mismatches()) + " blocks were freed with a different layout than they were allocated with",
                  "{\"kind\":\"c17-alloc\"}");
    // machine readable summary for run.py
    printf("SUMMARY {\"violations\":%llu,\"counters\":{", (unsigned long long)g_violations);
    bool first = true;
    for (auto &kv : g_counters) {
        printf("%s\"%s\":%llu", first ? "" : ",", json_escape(kv.first).c_str(), (unsigned long long)kv.second);
        first = false;
    }
    printf("},\"samples\":[");
    for (size_t i = 0; i < g_samples.size(); ++i) printf("%s%s", i ? "," : "", g_samples[i].c_str());
    printf("]}\n");
    return g_violations ? 1 : 0;
}
