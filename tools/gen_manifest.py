#!/usr/bin/env python3
"""Generates /verif/MANIFEST.json (kept in one place so that it stays consistent)."""
import json, os, subprocess

ROOT = os.path.dirname(os.path.dirname(os.path.abspath(__file__)))

def repo_commits(prefix):
    out = subprocess.run(["git", "-C", "/repo", "log", "--format=%h %s"], capture_output=True, text=True).stdout
    return [l.split()[0] for l in out.splitlines() if l.split(" ", 1)[1].startswith(prefix)]

E1 = "E1 universe enumerator"
CHECKS = {
 "C01": dict(engine=E1, cat="model_checking", ref="DESIGN.md §3 C01",
   technique="exhaustive enumeration of bounded universe families on the real solver + brute-force rule oracle",
   text="Every (universe, problem) of the finite families F1/F1'/F2/F3/F4/F5/F9/F10/F11/F12 (F10 = a package first revealed after a decision for another transitive package, under per-package hint patterns; F11 = sequences of soft requirements sharing helper packages; F12 = a soft requirement revealing further candidates of an installed package; <=4 packages, <=3 versions, <=3 simultaneous decorations) is solved by the real Solver under every listed configuration (hints as-is/All/None, sync and controlled-async FIFO/LIFO, activity parameters, debug and release builds) and each returned solution is checked against an independent statement of the package rules; the clause database every solve leaves behind (read-only hook) must satisfy the structural invariant of the two-watched-literal lists and may contain no clause falsified by the final trail; decision levels never decrease along the trail, no variable is on it twice, learnt clauses only list older antecedents, and the returned solution equals the true solvables of the trail. Exhaustive inside the stated families; says nothing about larger universes.",
   note="Trusted: the harness's Universe->DependencyProvider adapter and the brute-force oracle (self-checked against hand-solved universes on every run)."),
 "C02": dict(engine=E1, cat="model_checking", ref="DESIGN.md §3 C02",
   technique="exhaustive universe enumeration; verdict vs brute-force satisfiability; learnt clauses certified on all assignments",
   text="Same enumeration as C01 plus id layouts with gaps; the verdict must equal brute-force satisfiability; via the read-only clause dump every problem clause is checked against the provider data, the forbid clauses of each package must be exactly an at-most-one, and every learnt clause must hold in every total assignment that satisfies the problem clauses emitted before it (enumeration over <= 2^18 assignments). An unsound learnt clause is caught even when it has not flipped a verdict; the watch lists of every solve must be structurally intact (every watching clause exactly once in the lists of its two watched literals), so a lost watch is caught long before it flips a verdict; the verdict must also be the same under every explored completion order of an asynchronous provider.",
   note="Clause dump comes from the verif-hooks feature (read-only). Learnt-clause certification skipped (and counted) above 18 variables."),
 "C03": dict(engine=E1, cat="model_checking", ref="DESIGN.md §3 C03",
   technique="exhaustive universe enumeration; conflict graph checked edge-by-edge and by enumeration of all node subsets",
   text="For every Unsolvable case of the enumeration the conflict graph is extracted and (1) every edge is checked against the provider data, (2) every node must be reachable from the root, (3) all subsets of the graph's solvable nodes are enumerated to show that the facts in the graph alone admit no selection installing the root.",
   note="Graphs with more than 20 solvable nodes are not proof-checked (counted; none occur in the families)."),
 "C04": dict(engine=E1, cat="model_checking", ref="DESIGN.md §3 C04",
   technique="exhaustive universe enumeration under catch_unwind + wall-clock monitor, both build profiles, capped render sinks",
   text="Every case of the families (incl. F5/F11 soft families and cyclic F1) (also with candidate - and so hint - lists that are not in ascending id order) is solved and, when Unsolvable, rendered (graph, graphviz x2, user-friendly message; also with the provider's cancellation flag raised between the solve and the rendering) in builds with and without debug assertions; providers that use the SolverCache from sort_candidates are run under completion orders of the controlled executor; any panic, hang (monitor; re-run alone before it is reported), output beyond 1 MiB or beyond the line bound derived from the graph is a violation, and so is a case that brings the whole harness process down (isolated by re-running the workers' current cases alone in child processes).",
   note="Well-formed providers only. The message bound is the size of the cycle-cut tree unfolding of the conflict graph."),
 "C05": dict(engine=E1, cat="model_checking", ref="DESIGN.md §3 C05",
   technique="exhaustive universe enumeration; solution compared with its own support fixpoint",
   text="Every Ok result of the enumeration must equal the least set reachable from the root requirements (and accepted soft solvables) along requirement edges into the solution.",
   note="Same families as C01."),
 "C07": dict(engine=E1, cat="model_checking", ref="DESIGN.md §3 C07",
   technique="exhaustive universe enumeration incl. all rank permutations; first-choice closure oracle; every async completion order on the union family",
   text="The premise (first-ranked candidates form a consistent selection in which every requirement is met only by its first choice) is evaluated literally by the oracle on every case, including all rank permutations/favored/listing orders (F4) and union requirements; when it holds the solution must be exactly that closure, in sync runs and under every completion order of the controlled async executor for the union sub-family.",
   note="Oracle independent of resolvo."),
 "C08": dict(engine=E1, cat="model_checking", ref="DESIGN.md §3 C08",
   technique="exhaustive universe enumeration; brute-force existence of a model containing all first-ranked direct candidates",
   text="For every case whose root requirements are single version sets: if brute force finds a valid selection containing the first-ranked candidate of every root requirement, the solution must contain them all. Families include F1' (4x2), the interference families F8/F8b, the late-reveal family F10 under per-package hint patterns and F14 (a candidate of a package with 3-4 candidates revealed after another one was decided: helper literals of the at-most-one encoding in conflict clauses), so that learning, backjumps past the root decisions and eager encoding of undecided solvables occur; F8 (hints as-is/All) and F8b (every subset of hinted packages) are also run under completion orders of the controlled executor.",
   note=""),
 "C09": dict(engine=E1, cat="model_checking", ref="DESIGN.md §3 C09",
   technique="exhaustive universe enumeration; provider call log walked against causality rules",
   text="The complete provider call log of every solve (no hints, in both representations: the None variant and an empty list) is walked in order: get_dependencies only for matching candidates of requirements already obtained (or soft solvables), get_candidates only for names already mentioned, nothing twice (also when requests overlap: completion orders of an asynchronous provider, incl. one that reads dependencies through the cache from sort_candidates; and over two successive solves on one solver when the first was cancelled at any poll index); on conflict-free cases the fetched sets must be exactly the solution / the mentioned names.",
   note="Longer histories of successive solves are covered by C13."),
 "C10": dict(engine="E2 completion-order explorer", cat="model_checking", ref="DESIGN.md §3 C10",
   technique="stateless DFS over all completion orders of parked provider futures under a controlled single-threaded executor (deviation-bounded above a size cap)",
   text="For every instance of the tiny async family every order in which parked get_candidates/get_dependencies (thorough: also filter/sort) futures complete is executed on the real solver; each schedule must terminate (deadlock = quiescent with nothing parked), agree with the sync verdict, give a valid solution and never repeat a request - also with providers whose sort_candidates calls back into the SolverCache (dependencies of the sorted solvables, candidates of the packages they mention), whose requests race with the solver's own. Complete schedule trees below the cap, <= d deviations from FIFO above it (both counted).",
   note="Schedules are those a single-threaded executor can produce by completing one (or two) parked futures per quiescent point."),
 "C11": dict(engine="E2 completion-order explorer", cat="model_checking", ref="DESIGN.md §3 C11",
   technique="every quiescent point of every explored schedule checked against the set of already-implied candidate requests",
   text="At every quiescent point of every schedule explored as in C10, every package mentioned by dependency information already delivered to the solver must have its get_candidates request issued (pending or completed); k root packages => k requests in flight at the first quiescent point; the cache's own union path (sorted candidates of a union on a bare SolverCache) must have the candidates of all member packages in flight when it first blocks.",
   note=""),
 "C12": dict(engine="E3 fault-point enumerator", cat="fault_enumeration", ref="DESIGN.md §3 C12",
   technique="cancellation injected at every poll index k (sticky and transient), sync and under bounded-deviation async schedules",
   text="A baseline run counts the K polls of should_cancel_with_value; for every k < K and both modes the run is repeated with cancellation firing at poll k: the result must be Cancelled carrying exactly token k, no get_candidates/get_dependencies may start afterwards, never Ok/Unsolvable; a never-firing poll must leave the run identical to a provider with the default method. Async: every k x every schedule with <= 1 deviation.",
   note=""),
 "C13": dict(engine="E4 operation-sequence explorer", cat="model_checking", ref="DESIGN.md §3 C13",
   technique="all solve-call histories up to depth d over a 5-problem alphabet on one solver, with every cancellation index, sync and async",
   text="All sequences of solve calls (length <= 2 quick / 3 thorough) over a per-universe alphabet of 5 problems on ONE solver, optionally with one call cancelled at every poll index; async: [call cancelled at poll k under every schedule with <= 1 deviation, then a second call]. Every call must terminate and agree with a fresh solver, solutions must be valid, metadata obtained earlier is never requested again, and the conflict graph reported by a later Unsolvable call must pass C03's oracle (truthful edges, reachability, proof by enumeration), and the clause database each later call leaves behind must have intact watch lists and a well-formed trail; the async histories are also run with a provider whose sort_candidates fetches dependencies through the cache.",
   note=""),
 "C14": dict(engine=E1, cat="model_checking", ref="DESIGN.md §3 C14",
   technique="exhaustive enumeration of soft-requirement universes (F5) + brute-force oracle",
   text="F5 (13 skeletons + unreferenced package z with back-references, every subset of <= 2/3 soft/exclude/lock/unknown/hint/requirement decorations), F1 x one soft solvable, F11 (sequences of two soft requirements sharing helper packages, also under hints on the shared packages only) F12 (a soft requirement revealing further candidates of an installed package) and F13 (a directly named soft solvable of a locked / excluded package before or after a soft requirement that requires or constrains the package, with an unrelated third soft solvable at the end or in the middle): hard verdict unchanged by soft requirements, returned set valid with the documented exemption, supported, inclusion of a compatible first soft solvable and of every later soft solvable whose closure touches no package that the root or any other soft requirement can reach, impossible soft solvables absent.",
   note="Inclusion rule evaluated for the first soft solvable and for later soft solvables that are independent of all others (no shared reachable package); dependent later ones are only judged by validity."),
 "C15": dict(engine=E1, cat="model_checking", ref="DESIGN.md §3 C15",
   technique="enumeration of candidate counts n<=N, all pairs, all discovery shapes; at-most-one encoding certified from the clause dump",
   text="One package with n candidates for every n <= 17 (quick) / 130 (thorough); every discovery shape of the menu (all at once, every arrival permutation for n <= 5, identity/reverse/interleaved/rotations above, blocks, two-phase at the split points, discovery under decisions that are later reverted, candidates that are false when a lazily fetched requirer reveals them, overlapping / growing / repeated revelations, wanted candidates listed first, the second wanted candidate forced through non-singleton requirements next to a known candidate); every pair must be Unsolvable, every single candidate selectable, also when the same problem is solved a second time on the same solver; the dumped forbid clauses (of both solves) must be exactly an at-most-one.",
   note="Above n = 40 only pairs touching a power-of-two neighbourhood or the ends are enumerated (counted)."),
 "C16": dict(engine="E4 operation-sequence explorer", cat="model_checking", ref="DESIGN.md §3 C16",
   technique="universe enumeration x capture seeds x serde round trip x add_package_requirement histories, compared with brute force on the live universe",
   text="For every universe (dense and gapped id layouts; incl. universes with two exclusion / Unknown decorations sharing one reason string) every capture seed of the menu x {direct, serde_json round trip} x every history of 0..2 add_package_requirement calls (with with_timeout at every position of the history): captured version sets re-read after every addition, added ids fresh, the case's problem / highest captured version set / every added version set solved through the snapshot and compared with brute force on the live universe incl. preference order on conflict-free problems.",
   note="Problems with union root requirements are not expressible through from_provider's seeds."),
 "C18": dict(engine="E4 operation-sequence explorer", cat="model_checking", ref="DESIGN.md §3 C18",
   technique="BFS over Pool interning histories from pre-filled start states with canonical-state dedup vs reference maps",
   text="Breadth-first search over intern_* histories (unions of 2, 3, 4 or 6 distinct members and with repeated members; depth 4 quick / 6 thorough) from pools pre-filled with 0/126/127/128/255/256 items per arena (some with the alphabet's package names interned already), plus every sequence of length 2 from pools holding 128*128-1 items per arena; after every operation every id ever returned is re-resolved and must yield the same content at the same address; ids dense and stable. Because the canonical form is derived from the reference model, every sequence up to depth 4 (quick) / 5 (thorough) from prefill 0 and 127 is additionally enumerated without any state merging. Thorough adds a supplementary miri replay of a few histories (not deciding).",
   note="Address stability observed through safe code (re-resolution)."),
 "C19": dict(engine="E4 operation-sequence explorer", cat="model_checking", ref="DESIGN.md §3 C19",
   technique="BFS over Mapping insert/unset histories with canonical-state dedup vs BTreeMap, incl. serde round trip",
   text="Breadth-first search over all insert/unset sequences (depth 5 quick / 8 thorough) on ids {0,1,2,5,127,128,129,300} from default()/with_capacity(1)/with_capacity(200); get, len, is_empty, iter and a serde_json round trip compared with a BTreeMap after every sequence; every sequence up to depth 4/5 additionally without state merging; thorough adds a supplementary miri replay (not deciding).",
   note=""),
 "C20": dict(engine="E4 operation-sequence explorer", cat="model_checking", ref="DESIGN.md §3 C20",
   technique="all SolverCache call sequences of depth d per universe vs reference filter/sort/availability model; re-entrant sort in full solves",
   text="For every universe of F3 (<= 1/2 decorations) and a slice of F4: every sequence (length 3 quick / 4 thorough) of get_or_cache_* / are_dependencies_available_for calls on a bare SolverCache compared with the reference (partition exactly as filter_candidates answers - also for a provider that answers in reverse listing order -, rank order with favored rotation, same address and no provider call on repeats, availability rule, hints as-is / All / empty list); plus full solves whose sort_candidates calls back into the cache (sync and under completion orders of the controlled executor), hand-stepped in-flight scenarios on a bare cache (availability while a request is pending / after it was dropped, a second caller sharing the pending request, an abandoned request not blocking later ones), every operation cancelled at each of its polls and followed by every operation (an interrupted query leaves nothing wrong behind), every universe again with all packages hinted, the sorted candidates of every union under every completion order of the provider's answers (controlled executor on a bare cache), and one-package universes with 5/21/33/64 candidates x favored position x 3 preference orders.",
   note=""),
}

CHECKS["C06"] = dict(engine=E1, cat="exploration", ref="DESIGN.md §3 C06, §10",
   technique="enumeration of instances x a fixed list of controlled hash-seed vectors x fresh solver instances, plus cross-process batch digests",
   text="Every instance of F1 (all roots) / F3 (<= 1/2 decorations) / the dead-end family (<= 2/3 exclusion, unknown, empty-requirement, lock decorations) / the constrains families (F3 x <= 2/3 constrains decorations, a slice of F9-wide: one solvable constraining several version sets inside one conflict; all packages displaying the same name, with a provider that keeps the order of merged solvables in messages; the soft-requirement families F5 / F11 / F13 with ordered, repeated and conflicting soft entries) / a slice of F4 is solved under K fixed ahash seed vectors (K = 4 quick, 16 thorough; seed control through ahash's set_random_source and --cfg fuzzing) x 2 fresh solvers, with hints as-is and All; the solution vector (order included) or the conflict message must be identical; the whole batch is digested again in separate processes with uncontrolled seeds. Exploration, not proof: the seed space is 2^256 and only a fixed list is enumerated.",
   note="std's SipHash keys in conflict.rs vary per instance but are not controlled; a seed-control probe must realise >= 2 iteration orders or the run exits 2.")
CHECKS["C17"] = dict(engine="E5 C++/Rust differential driver", cat="model_checking", ref="DESIGN.md §3 C17, §10",
   technique="universe enumeration pushed through the C++ bridge and the Rust API in one ASan/UBSan process with a layout-checking allocator; exhaustive container-operation sequences vs std::vector",
   text="Every universe of F3 (<= 1/2 decorations), a slice of F1 and of F5 that the C++ interface can express is solved through resolvo::solve with a table-driven C++ DependencyProvider (6 ways of building the returned vectors incl. a reused scratch vector with capacity > size, with and without a pre-filled result; consecutive solves use provider objects at alternating addresses and the previous provider is destroyed and poisoned) and through the Rust API: identical solution vector / error text, no Rust-side block survives a solve, every block is freed with the layout it was allocated with, ASan/UBSan/LSan silent; every sequence (depth 4/5) of container operations on Vector<SolvableId>/Vector<String>/Vector<std::string> with 2 handles vs std::vector (incl. push_back of an element of the same vector through both overloads), String operations vs std::string (incl. self-assignment and assignment of views into the string's own data), struct layouts compared; a reduced pass runs under valgrind.",
   note="Unknown dependencies and missing packages cannot be expressed through the C++ interface; the Rust side of Vector is only reachable through the bridge.")

NOT_APPLICABLE = {
}

def main():
    checks = []
    for pid in sorted(CHECKS):
        c = CHECKS[pid]
        checks.append({
            "property_id": pid,
            "quick_cmd": f"./check {pid} quick",
            "thorough_cmd": f"./check {pid} thorough",
            "evidence_file": f"/verif/evidence/{pid}.json",
            "replay_cmd_template": "./check replay {path}",
            "engine": c["engine"],
            "level_claimed": {"category": c["cat"], "text": c["text"], "design_ref": c["ref"]},
            "level_note": c["note"] or "Bounded exhaustive: holds for the stated families only.",
            "technique": c["technique"],
        })
    all_ids = ["C%02d" % i for i in range(1, 21)]
    na = [{"property_id": p, "reason": NOT_APPLICABLE.get(p, "check not built yet in this round (work in progress)")} for p in all_ids if p not in CHECKS]
    m = {
        "version": 1,
        "setup_cmd": "./check --setup",
        "hooks": {
            "guard": "cargo feature `verif-hooks` of the resolvo crate (off by default)",
            "enable": "the harness crate /verif/harness depends on resolvo = { path = \"/repo\", features = [\"serde\", \"verif-hooks\"] }; every ./check rebuilds it from /repo's working tree",
            "baseline_off_cmd": "cd /repo && cargo test --workspace --no-fail-fast --offline",
            "source_commits": repo_commits("verif-hooks"),
            "add_only": True,
        },
        "engines": [
            {"name": E1, "path": "harness/src/{universe,families,oracle,run,e1,e15,plans}.rs", "serves_properties": ["C01","C02","C03","C04","C05","C06","C07","C08","C09","C14","C15"], "kind_free_text": "exhaustive enumeration of finite universe families, executed on the real solver"},
            {"name": "E2 completion-order explorer", "path": "harness/src/{sched,e2}.rs", "serves_properties": ["C10","C11","C07"], "kind_free_text": "stateless DFS over completion orders under a controlled single-threaded executor"},
            {"name": "E3 fault-point enumerator", "path": "harness/src/e2.rs", "serves_properties": ["C12","C13"], "kind_free_text": "cancellation at every poll index"},
            {"name": "E4 operation-sequence explorer", "path": "harness/src/{e2,e4,e16}.rs", "serves_properties": ["C13","C16","C18","C19","C20"], "kind_free_text": "BFS / complete enumeration of API call histories against reference models"},
            {"name": "E5 C++/Rust differential driver", "path": "cpp/{driver.cpp,rt/src/lib.rs,run.py}", "serves_properties": ["C17"], "kind_free_text": "one process: C++ side under ASan/UBSan, Rust side with a layout-checking global allocator; reduced pass under valgrind"},
        ],
        "checks": checks,
        "not_applicable": na,
        "notes": "Fix commits in /repo: " + ", ".join(repo_commits("fix:")) + ". See known_findings.json and DESIGN.md.",
    }
    json.dump(m, open(os.path.join(ROOT, "MANIFEST.json"), "w"), indent=1)
    print("checks:", len(checks), "not_applicable:", [x["property_id"] for x in na])

if __name__ == "__main__":
    main()
