#!/usr/bin/env python3
"""Confirm and evaluate one seeded change.

  seed_eval.py <tag> <patch> <demo.rs> <property> [more properties to run...]

1. In a scratch worktree of /repo HEAD (/tmp/seedchk/wt, reused): the patch must apply, the
   57 baseline tests must pass with it, the demo must fail with it and pass without it.
2. Apply the patch to /repo, run the quick checks of the given properties, undo it.
Writes /verif/seeded/<tag>/{patch.diff, demo, meta.json}.
"""
import json, os, re, shutil, subprocess, sys, time

def sh(cmd, **kw):
    return subprocess.run(cmd, shell=True, text=True, capture_output=True, **kw)

def main():
    tag, patch, demo, prop = sys.argv[1:5]
    props = sys.argv[4:]
    wt = "/tmp/seedchk/wt"
    # the confirmation worktree is shared: two evaluations at the same time would confirm each other's
    # patches (this happened once, in round 9) - serialise them
    import fcntl
    os.makedirs("/tmp/seedchk", exist_ok=True)
    lock = open("/tmp/seedchk/lock", "w")
    fcntl.flock(lock, fcntl.LOCK_EX)
    env = dict(os.environ, CARGO_TARGET_DIR="/tmp/seedchk/target", CARGO_NET_OFFLINE="true")
    if not os.path.exists(wt):
        os.makedirs("/tmp/seedchk", exist_ok=True)
        r = sh(f"git -C /repo worktree add --detach {wt} HEAD")
        assert r.returncode == 0, r.stderr
    sh(f"git -C {wt} reset -q --hard; git -C {wt} checkout -q --detach $(git -C /repo rev-parse HEAD); git -C {wt} reset -q --hard; git -C {wt} clean -fdq -- tests src cpp")
    meta = {"id": tag, "property": prop, "repo_head": sh("git -C /repo rev-parse --short HEAD").stdout.strip()}
    r = sh(f"git -C {wt} apply --3way {patch} || git -C {wt} apply {patch}")
    if r.returncode != 0:
        r2 = sh(f"cd {wt} && patch -p1 --fuzz=3 < {patch}")
        if r2.returncode != 0:
            print("PATCH DOES NOT APPLY", r.stderr, r2.stdout)
            return 3
    sh(f"git -C {wt} reset -q")  # unstage
    # regenerate a clean diff against the current HEAD
    clean_patch = sh(f"git -C {wt} diff").stdout
    # 1. baseline tests with patch
    r = sh(f"cd {wt} && cargo test --workspace --no-fail-fast --offline 2>&1 | grep -E '^test result'", env=env)
    passed = sum(int(m) for m in re.findall(r"(\d+) passed", r.stdout))
    failed = sum(int(m) for m in re.findall(r"(\d+) failed", r.stdout))
    meta["baseline_with_patch"] = {"passed": passed, "failed": failed}
    print("baseline with patch:", passed, "passed", failed, "failed")
    # demo with patch
    demo_name = "seed_demo"
    shutil.copy(demo, f"{wt}/tests/{demo_name}.rs")
    r = sh(f"cd {wt} && cargo test --offline --features serde --test {demo_name} 2>&1 | tail -30", env=env)
    demo_fails_with = "test result: FAILED" in r.stdout or "error: test failed" in r.stdout
    if "could not compile" in r.stdout:
        print("DEMO DOES NOT COMPILE\n", r.stdout)
    meta["demo_with_patch"] = "fails" if demo_fails_with else "passes"
    print("demo with patch:", meta["demo_with_patch"])
    # demo without patch
    sh(f"git -C {wt} checkout -- src cpp")
    r = sh(f"cd {wt} && cargo test --offline --features serde --test {demo_name} 2>&1 | tail -30", env=env)
    demo_ok_without = "test result: ok" in r.stdout
    meta["demo_without_patch"] = "passes" if demo_ok_without else "fails"
    print("demo without patch:", meta["demo_without_patch"])
    sh(f"git -C {wt} reset -q --hard; git -C {wt} clean -fdq -- tests")
    confirmed = passed >= 57 and failed == 0 and demo_fails_with and demo_ok_without
    meta["confirmed"] = confirmed
    # 2. run my checks against it
    results = {}
    # the tree the checks run against: /repo itself, or (VERIF_EVAL_REPO) a scratch worktree of /repo that the
    # snapshot of /verif given by VERIF_SNAP has been pointed at, so that /repo stays untouched meanwhile
    repo = os.environ.get("VERIF_EVAL_REPO", "/repo")
    if sh(f"git -C {repo} status --porcelain").stdout.strip():
        print("REPO NOT CLEAN, refusing")
        return 4
    tmp_patch = "/tmp/seedchk/current.diff"
    open(tmp_patch, "w").write(clean_patch)
    r = sh(f"git -C {repo} apply {tmp_patch}")
    assert r.returncode == 0, r.stderr
    try:
        for p in props:
            t0 = time.time()
            # checks run from a snapshot of the committed /verif (so that /verif can be edited meanwhile)
            snap = os.environ.get("VERIF_SNAP", "/verif")
            r = sh(f"cd {snap} && timeout 1500 ./check {p} quick 2>&1")
            sigs = sorted(set(re.findall(r"what: .*\[(.*?)\]\s*$", r.stdout, re.M)))
            known = sorted(set(re.findall(r"^KNOWN-FINDING.*$", r.stdout, re.M)))
            results[p] = {"exit": r.returncode, "violation_signatures": sigs[:8], "wall_s": round(time.time() - t0, 1),
                          "machinery": re.findall(r"MACHINERY ERROR.*", r.stdout)[:3]}
            print(f"check {p}: exit={r.returncode} sigs={sigs[:5]}")
    finally:
        sh(f"git -C {repo} checkout -- . && git -C {repo} status --porcelain")
        snap = os.environ.get("VERIF_SNAP", "/verif")
        sh(f"rm -rf {snap}/replays/*")
        # evidence files were rewritten by runs on a mutated tree: restore the committed ones
        sh(f"cd {snap} && git checkout -- evidence 2>/dev/null")
    meta["checks"] = results
    meta["caught_by"] = [p for p, v in results.items() if v["exit"] == 1]
    out = f"/verif/seeded/{tag}"
    os.makedirs(out, exist_ok=True)
    open(f"{out}/patch.diff", "w").write(clean_patch)
    shutil.copy(demo, f"{out}/" + os.path.basename(demo))
    notes = os.path.join(os.path.dirname(patch), "notes.md")
    if os.path.exists(notes):
        shutil.copy(notes, f"{out}/agent_notes.md")
    old = {}
    if os.path.exists(f"{out}/meta.json"):
        old = json.load(open(f"{out}/meta.json"))
    old.update(meta)
    json.dump(old, open(f"{out}/meta.json", "w"), indent=1)
    print("confirmed:", confirmed, "caught_by:", meta["caught_by"])
    return 0

if __name__ == "__main__":
    sys.exit(main())
