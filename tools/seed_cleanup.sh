#!/bin/bash
# usage: seed_cleanup.sh <tag>  -> removes worktree + build output
tag="$1"
git -C /repo worktree remove --force /tmp/seed/$tag/wt 2>/dev/null || true
rm -rf /tmp/seed/$tag
git -C /repo worktree prune
