#!/bin/bash
# usage: seed_confirm.sh <seeded-id>...   Re-confirms kept seeded changes one after another in the scratch
# worktree /tmp/seedchk/wt of /repo HEAD: the 57 baseline tests pass with the patch, the demonstration
# fails with it and passes without it. Prints one line per change.
export CARGO_TARGET_DIR=/tmp/seedchk/target CARGO_NET_OFFLINE=true
wt=/tmp/seedchk/wt
[ -d $wt ] || { mkdir -p /tmp/seedchk; git -C /repo worktree add --detach $wt HEAD >/dev/null; }
for id in "$@"; do
  d=/verif/seeded/$id
  git -C $wt reset -q --hard; git -C $wt checkout -q --detach "$(git -C /repo rev-parse HEAD)"; git -C $wt clean -fdq -- tests src cpp
  if ! git -C $wt apply $d/patch.diff 2>/dev/null; then echo "$id PATCH-DOES-NOT-APPLY"; continue; fi
  res=$(cd $wt && cargo test --workspace --no-fail-fast --offline 2>&1 | grep -E '^test result')
  passed=$(echo "$res" | grep -oE '[0-9]+ passed' | awk '{s+=$1} END {print s}')
  failed=$(echo "$res" | grep -oE '[0-9]+ failed' | awk '{s+=$1} END {print s}')
  demo=$(ls $d/seed_demo*.rs 2>/dev/null | head -1)
  cp $demo $wt/tests/seed_demo.rs
  with=$(cd $wt && cargo test --offline --features serde --test seed_demo 2>&1 | grep -cE 'test result: FAILED|error: test failed')
  git -C $wt checkout -- src cpp
  without=$(cd $wt && cargo test --offline --features serde --test seed_demo 2>&1 | grep -c 'test result: ok')
  echo "$id baseline=$passed/$failed demo_with_patch=$([ $with -gt 0 ] && echo fails || echo passes) demo_without_patch=$([ $without -gt 0 ] && echo passes || echo fails)"
  git -C $wt reset -q --hard; git -C $wt clean -fdq -- tests
done
echo ALL-DONE
