#!/bin/bash
# usage: seed_worktree.sh <tag>   -> creates /tmp/seed/<tag>/wt (git worktree of /repo HEAD) and /tmp/seed/<tag>/out
set -e
tag="$1"
mkdir -p /tmp/seed/$tag/out
git -C /repo worktree add --detach /tmp/seed/$tag/wt HEAD >/dev/null 2>&1
echo /tmp/seed/$tag/wt
