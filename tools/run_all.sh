#!/bin/bash
# Runs every registered check at the given tier (default quick), validates the evidence files.
tier=${1:-quick}
cd "$(dirname "$0")/.."
fail=0
for p in $(python3 -c "import json; print(' '.join(c['property_id'] for c in json.load(open('MANIFEST.json'))['checks']))"); do
  s=$(date +%s)
  ./check $p $tier > /tmp/run_all_$p.log 2>&1; rc=$?
  e=$(( $(date +%s) - s ))
  echo "$p exit=$rc ${e}s $(grep -c VIOLATION /tmp/run_all_$p.log) violations"
  [ $rc -ne 0 ] && fail=1
done
python3-vt - <<'PY'
import json, jsonschema, glob
schema = json.load(open('/root/.vp/EVIDENCE.schema.json'))
for f in sorted(glob.glob('evidence/C*.json')):
    if '.part.' in f: continue
    try:
        jsonschema.validate(json.load(open(f)), schema); 
    except Exception as e:
        print('INVALID', f, str(e)[:200])
print('evidence validated')
PY
exit $fail
