#!/bin/bash
# Brings the scratch snapshot /tmp/verif_snap (a git worktree of /verif used to evaluate seeded changes) to
# /verif's HEAD and points its harness at the scratch worktree /tmp/evalwt/repo of /repo (at /repo's HEAD),
# so that seeded changes are applied there and /repo itself stays untouched.
set -e
[ -d /tmp/verif_snap ] || git -C /verif worktree add --detach /tmp/verif_snap HEAD >/dev/null
git -C /tmp/verif_snap checkout -q -- . 
git -C /tmp/verif_snap checkout -q --detach "$(git -C /verif rev-parse HEAD)"
[ -d /tmp/evalwt/repo ] || { mkdir -p /tmp/evalwt; git -C /repo worktree add --detach /tmp/evalwt/repo HEAD >/dev/null; }
git -C /tmp/evalwt/repo checkout -q -- .
git -C /tmp/evalwt/repo checkout -q --detach "$(git -C /repo rev-parse HEAD)"
cd /tmp/verif_snap
sed -i 's#path = "/repo"#path = "/tmp/evalwt/repo"#; s#path = "/repo/cpp"#path = "/tmp/evalwt/repo/cpp"#' harness/Cargo.toml cpp/rt/Cargo.toml
sed -i 's#-I/repo/cpp/include#-I/tmp/evalwt/repo/cpp/include#' cpp/run.py
[ -d .build ] || cp -r /verif/.build .build
echo "snapshot at $(git rev-parse --short HEAD), eval repo at $(git -C /tmp/evalwt/repo rev-parse --short HEAD)"
