#!/bin/bash
# usage: snap_sync.sh [suffix]
# Brings the scratch snapshot /tmp/verif_snap<suffix> (a git worktree of /verif used to evaluate seeded
# changes) to /verif's HEAD and points its harness at the scratch worktree /tmp/evalwt<suffix>/repo of /repo
# (at /repo's HEAD), so that seeded changes are applied there and /repo itself stays untouched.
set -e
S="$1"
SNAP=/tmp/verif_snap$S
EV=/tmp/evalwt$S/repo
[ -d $SNAP ] || git -C /verif worktree add --detach $SNAP HEAD >/dev/null
git -C $SNAP checkout -q -- . 
git -C $SNAP checkout -q --detach "$(git -C /verif rev-parse HEAD)"
[ -d $EV ] || { mkdir -p /tmp/evalwt$S; git -C /repo worktree add --detach $EV HEAD >/dev/null; }
git -C $EV checkout -q -- .
git -C $EV checkout -q --detach "$(git -C /repo rev-parse HEAD)"
cd $SNAP
sed -i "s#path = \"/repo\"#path = \"$EV\"#; s#path = \"/repo/cpp\"#path = \"$EV/cpp\"#" harness/Cargo.toml cpp/rt/Cargo.toml
sed -i "s#-I/repo/cpp/include#-I$EV/cpp/include#" cpp/run.py
[ -d .build ] || cp -r /verif/.build .build
echo "snapshot $SNAP at $(git rev-parse --short HEAD), eval repo $EV at $(git -C $EV rev-parse --short HEAD)"
