#!/usr/bin/env python3
"""Writes /tmp/seed/<tag>/TASK.md for a seeded-change sub-agent: property text + instructions only."""
import json, sys
tag = sys.argv[1]
pid = sys.argv[2] if len(sys.argv) > 2 else tag
extra = sys.argv[3] if len(sys.argv) > 3 else ""
props = {json.loads(l)["id"]: json.loads(l) for l in open("/verif/properties.jsonl")}
p = props[pid]
base = f"/tmp/seed/{tag}"
open(f"{base}/TASK.md", "w").write(f"""# Task: a subtle change to resolvo that breaks one property

You work in a scratch git worktree of the Rust crate **resolvo** (mamba-org/resolvo: a CDCL SAT-based
package dependency resolver with lazy/async metadata fetching, conflict explanation, and a C++ FFI binding
in `cpp/`) at `{base}/wt`. Work ONLY inside `{base}` (never read or write `/verif` or `/repo`).
There is no network: always pass `--offline` to cargo. Always `export CARGO_TARGET_DIR={base}/target`.
The toolchain is pinned by the repo's `rust-toolchain` file (1.86.0) and is installed.

## The property

**{p['title']}**

{p['statement']}

Quantified: {p['quantifier']['text']}

Relevant files: {', '.join(p['anchors']['files'])}

## What to produce

A *realistic* change to resolvo's source (the kind of slip a maintainer could make in a refactor, an
optimisation that is wrong in a corner case, an off-by-one, a wrong comparison, a missing reset, reordered
statements, publishing state before it is complete, two sites that each look fine alone...) that makes the
property FALSE for some inputs/sequences/schedules, while:

1. the workspace still compiles and the ENTIRE existing test suite still passes, unedited:
   `cargo test --workspace --no-fail-fast --offline` (57 tests; do not touch tests or snapshots);
2. the change is unconditional (no cfg flags, no env vars, no special-casing of magic values), small
   (roughly 1-15 changed lines), and touches only library source (`src/` or `cpp/src/`, `cpp/include/`);
3. the breakage needs something SPECIFIC to manifest - a particular input shape, a multi-step sequence of
   operations, a particular completion order of async requests, a cancellation at a particular point, an
   unusual but legal provider answer, or two cooperating sites - NOT something ordinary use would expose at
   once. Prefer changes whose effect is a wrong *result* over ones that merely crash, unless the property is
   about crashing/terminating. {extra}

Also write a demonstration: a new integration test file `tests/seed_demo.rs` (self-contained; you may copy
helper code from `tests/solver.rs`; use only public API, or for C++ properties a small C++/Rust program)
that FAILS with your change and PASSES without it.

Verify all of this yourself, by running:
- the existing suite WITH the change (must pass),
- the demo WITH the change (must fail),
- the demo WITHOUT the change (must pass). NEVER use `git stash` (the stash is shared between all worktrees of
  this repository and other people use it): instead `git diff -- src cpp > ../my.diff && git checkout -- src cpp`,
  run the demo, then `git apply ../my.diff` and check `git diff --stat`.

## Deliverables (in `{base}/out/`)

- `patch.diff` - `git diff` of the library source change only (NOT including the demo test);
- `seed_demo.rs` (or the demo program) - the demonstration;
- `notes.md` - what the change is, why it breaks the property, what is needed to make it manifest, and the
  exact commands you ran with their outcome.

If you find more than one good candidate, deliver the best as above and further ones as `patch2.diff` /
`seed_demo2.rs` etc. (each verified the same way). Leave the worktree with the change applied. In your final
message give a 5-line summary.
""")
print(f"{base}/TASK.md")
