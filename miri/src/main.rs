//! Supplementary undefined-behaviour probe (NOT the deciding step of any check): a handful of the
//! Pool / Mapping histories that the E4 explorers enumerate are replayed under miri, which sees the
//! unsafe code of `internal/arena.rs`, `internal/mapping.rs` and `internal/frozen_copy_map.rs`.
use rvmc::e4::*;

fn main() {
    let mut bad = 0;
    let pool_histories: Vec<(usize, Vec<POp>)> = vec![
        (0, vec![POp::Name(0), POp::Name(0), POp::Str(0), POp::VSet(0, 0), POp::VSet(0, 0), POp::Solvable(0), POp::Union(2)]),
        (126, vec![POp::Name(0), POp::Str(0), POp::VSet(0, 0), POp::Solvable(0), POp::Solvable(0), POp::Union(2), POp::Name(1), POp::VSet(1, 1), POp::Union(9)]),
        (131, vec![POp::Solvable(0), POp::Name(0), POp::Solvable(0), POp::Solvable(0), POp::Str(1), POp::Str(1)]),
    ];
    for (pf, h) in &pool_histories {
        match p_build(*pf, h) {
            Ok(_) => println!("pool prefill {pf}: ok"),
            Err(e) => {
                println!("pool prefill {pf}: {e:?}");
                bad += 1;
            }
        }
    }
    let mapping_histories: Vec<(MStart, Vec<MOp>)> = vec![
        (MStart::Cap1, vec![MOp::Insert(5), MOp::Insert(300), MOp::Unset(5), MOp::Insert(128), MOp::Unset(300), MOp::Insert(0)]),
        (MStart::Cap200, vec![MOp::Insert(129), MOp::Insert(1), MOp::Unset(129), MOp::Unset(1), MOp::Insert(127)]),
        (MStart::Default, vec![MOp::Unset(300), MOp::Insert(2), MOp::Insert(2), MOp::Unset(2)]),
    ];
    for (st, h) in &mapping_histories {
        match m_build(*st, h, &M_IDS) {
            Ok(_) => println!("mapping {st:?}: ok"),
            Err(e) => {
                println!("mapping {st:?}: {e:?}");
                bad += 1;
            }
        }
    }
    std::process::exit(if bad == 0 { 0 } else { 1 });
}
